/-
  POO: what one `pull` / one `receive` does (as an `iff` on the successful outcome), and the
  preservation of the invariants `POO.InvAM` / `POO.ReadyAM` of `Spec/MetaSpec.lean`.
  Core Lean only.
-/
import PyXABProofs.Spec.MetaSpec

namespace PyXAB.MT
open PyXAB POO
variable {L α R S Pt ρ : Type}

/-! ### Arithmetic -/

theorem ceilDiv_mul (m N : Nat) (hN : 0 < N) : POO.ceilDiv (m * N) N = m := by
  unfold POO.ceilDiv
  have h : m * N + N - 1 = N * m + (N - 1) := by
    rw [Nat.mul_comm]; omega
  rw [h, Nat.mul_add_div hN, Nat.div_eq_of_lt (by omega)]
  rfl

/-! ### The successful outcomes of `pull` -/

theorem pull_ok_iff (ops : LearnerOps L α R Pt ρ) (cfg : POOCfg R S ρ) (s s1 : POO L S) (time i : Nat)
    (ds ds1 : List (Draw α)) (pt : Pt) :
    pull ops cfg s time ds = .ok (s1, ds1, i, pt) ↔
      (cfg.cond s.N s.n = true ∧ s.counter = 0 ∧ ∃ lnew l', ops.create (cfg.rhoOf s.N s.phase) ds = .ok (lnew, ds1) ∧
        ops.pull lnew time = .ok (l', pt) ∧ i = s.learners.length ∧
        s1 = { s with learners := s.learners ++ [l'], V := s.V ++ [cfg.zero], times := s.times ++ [0] }) ∨
      (cfg.cond s.N s.n = true ∧ s.counter ≠ 0 ∧ ∃ l l', s.learners.getLast? = some l ∧
        ops.pull l time = .ok (l', pt) ∧ i = s.learners.length - 1 ∧ ds1 = ds ∧
        s1 = { s with learners := s.learners.set (s.learners.length - 1) l' }) ∨
      (cfg.cond s.N s.n = false ∧ ∃ ac l l', s.algoCounter = some ac ∧ s.learners[ac]? = some l ∧
        ops.pull l time = .ok (l', pt) ∧ i = ac ∧ ds1 = ds ∧
        s1 = { s with learners := s.learners.set ac l' }) := by
  unfold pull
  simp only [bind, Except.bind, pure, Except.pure]
  by_cases hc : cfg.cond s.N s.n = true
  · by_cases h0 : s.counter = 0
    · simp only [hc, h0, if_true]
      cases hcr : ops.create (cfg.rhoOf s.N s.phase) ds with
      | error e => simp
      | ok v =>
        obtain ⟨lnew, ds'⟩ := v
        simp only [List.getLast?_append, List.getLast?_singleton, Option.some_or]
        cases hp : ops.pull lnew time with
        | error e => simp [hp]
        | ok w =>
          obtain ⟨l', pt'⟩ := w
          simp
          grind
    · simp only [hc, h0, if_true, if_false]
      cases hl : s.learners.getLast? with
      | none => simp
      | some l =>
        cases hp : ops.pull l time with
        | error e => simp [hp]
        | ok w =>
          obtain ⟨l', pt'⟩ := w
          simp [hp]
          grind
  · simp only [hc]
    simp only [Bool.not_eq_true] at hc
    cases ha : s.algoCounter with
    | none => simp
    | some ac =>
      cases hl : s.learners[ac]? with
      | none => simp [hl]
      | some l =>
        cases hp : ops.pull l time with
        | error e => simp [hl, hp]
        | ok w =>
          obtain ⟨l', pt'⟩ := w
          simp [hl, hp]
          grind

/-! ### The successful outcomes of `receive` -/

/-- the state after `receive` in creation mode (`l'` = the learner after its `receive`) -/
def recvCreate (cfg : POOCfg R S ρ) (s : POO L S) (l' : L) (v : S) (t : Nat) (r : R) : POO L S :=
  let s1 : POO L S :=
    { s with learners := s.learners.set (s.learners.length - 1) l',
             V := s.V.set (s.V.length - 1) (cfg.upd v s.counter r),
             times := s.times.set (s.times.length - 1) (t + 1), counter := s.counter + 1 }
  let s2 := if s1.counter ≥ ceilDiv s1.n s1.N then { s1 with counter := 0, phase := s1.phase + 1 } else s1
  if s2.phase ≥ s2.N then
    { s2 with n := 2 * s2.n, N := 2 * s2.N, phase := 0, counter := 0, algoCounter := some 0 } else s2

/-- the state after `receive` in round-robin mode -/
def recvRR (cfg : POOCfg R S ρ) (s : POO L S) (ac : Nat) (l' : L) (v : S) (t : Nat) (r : R) : POO L S :=
  let s1 : POO L S :=
    { s with learners := s.learners.set ac l', V := s.V.set ac (cfg.upd v (ceilDiv s.n s.N) r),
             times := s.times.set ac (t + 1) }
  if ac + 1 = s1.learners.length then { s1 with algoCounter := some 0, n := s1.n + s1.N }
  else { s1 with algoCounter := some (ac + 1) }

theorem receive_ok_iff (ops : LearnerOps L α R Pt ρ) (cfg : POOCfg R S ρ) (s s2 : POO L S) (time : Nat)
    (r : R) (ds ds2 : List (Draw α)) :
    receive ops cfg s time r ds = .ok (s2, ds2) ↔
      (cfg.cond s.N s.n = true ∧ ∃ l v t l', s.learners.getLast? = some l ∧ s.V.getLast? = some v ∧
        s.times.getLast? = some t ∧ ops.receive l time r ds = .ok (l', ds2) ∧
        s2 = recvCreate cfg s l' v t r) ∨
      (cfg.cond s.N s.n = false ∧ ∃ ac l v t l', s.algoCounter = some ac ∧ s.learners[ac]? = some l ∧
        s.V[ac]? = some v ∧ s.times[ac]? = some t ∧ ops.receive l time r ds = .ok (l', ds2) ∧
        s2 = recvRR cfg s ac l' v t r) := by
  unfold receive
  simp only [bind, Except.bind, pure, Except.pure]
  by_cases hc : cfg.cond s.N s.n = true
  · simp only [hc, if_true]
    cases hl : s.learners.getLast? with
    | none => simp
    | some l =>
      cases hv : s.V.getLast? with
      | none => simp
      | some v =>
        cases ht : s.times.getLast? with
        | none => simp
        | some t =>
          cases hp : ops.receive l time r ds with
          | error e => simp [hp]
          | ok w =>
            obtain ⟨l', ds'⟩ := w
            simp [hp, recvCreate]
            grind
  · simp only [hc]
    simp only [Bool.not_eq_true] at hc
    cases ha : s.algoCounter with
    | none => simp
    | some ac =>
      cases hl : s.learners[ac]? with
      | none => simp [hl]
      | some l =>
        cases hv : s.V[ac]? with
        | none => simp [hl, hv]
        | some v =>
          cases ht : s.times[ac]? with
          | none => simp [hl, hv, ht]
          | some t =>
            cases hp : ops.receive l time r ds with
            | error e => simp [hl, hv, ht, hp]
            | ok w =>
              obtain ⟨l', ds'⟩ := w
              simp [hl, hv, ht, hp, recvRR]
              grind

/-! ### Invariants -/

theorem inv_init (cfg : POOCfg R S ρ) (hc : cfg.cond 2 2 = true) :
    InvAM cfg (POO.init : POO L S) 1 1 := by
  refine { ha := Nat.le_refl _, hm := Nat.le_refl _, hN := rfl, hn := rfl, hV := rfl, hT := rfl,
           create := ?_, rr := ?_ }
  · intro _
    simp [POO.init]
  · intro h
    simp [POO.init, hc] at h

theorem getLast?_eq_getElem?_pred {β : Type} (l : List β) : l.getLast? = l[l.length - 1]? := by
  rw [List.getLast?_eq_getElem?]

theorem pull_ready {ops : LearnerOps L α R Pt ρ} {cfg : POOCfg R S ρ} {s s1 : POO L S} {a m time i : Nat}
    {ds ds1 : List (Draw α)} {pt : Pt} (hI : InvAM cfg s a m)
    (h : pull ops cfg s time ds = .ok (s1, ds1, i, pt)) :
    ReadyAM cfg s1 a m ∧ recvIdx cfg s1 = i ∧ PullEffect ops cfg s time ds s1 ds1 i pt := by
  rw [pull_ok_iff] at h
  rcases h with ⟨hc, h0, lnew, l', hcr, hp, hi, rfl⟩ | ⟨hc, h0, l, l', hl, hp, hi, rfl, rfl⟩ |
      ⟨hc, ac, l, l', hac, hl, hp, rfl, rfl, rfl⟩
  · obtain ⟨hph, hcm, _, htm⟩ := hI.create hc
    refine ⟨?_, ?_, ?_⟩
    · refine { ha := hI.ha, hm := hI.hm, hN := hI.hN, hn := hI.hn, hV := ?_, hT := ?_,
               create := ?_, rr := ?_ }
      · simp [hI.hV]
      · simp [hI.hT]
      · intro _
        refine ⟨hph, hcm, by simp, ?_⟩
        intro j t hj
        have hT := hI.hT
        simp only [List.length_append, List.length_singleton]
        simp only [List.getElem?_append, List.getElem?_singleton] at hj
        split at hj
        · have := htm j t hj
          grind
        · grind
      · intro h; simp [hc] at h
    · simp [recvIdx, hc, hi]
    · refine ⟨rfl, rfl, rfl, rfl, rfl, s.learners ++ [lnew], lnew, l', Or.inr ⟨?_, lnew, hcr, rfl, rfl, rfl⟩,
        ?_, hp, ?_⟩
      · simp [creates, hc, h0]
      · simp [hi]
      · simp [hi]
  · obtain ⟨hph, hcm, hne, htm⟩ := hI.create hc
    have hne := hne (by omega)
    have hlen : 0 < s.learners.length := List.length_pos_iff.mpr hne
    refine ⟨?_, ?_, ?_⟩
    · refine { ha := hI.ha, hm := hI.hm, hN := hI.hN, hn := hI.hn, hV := ?_, hT := ?_,
               create := ?_, rr := ?_ }
      · simp [hI.hV]
      · simp [hI.hT]
      · intro _
        refine ⟨hph, hcm, by simpa using hne, ?_⟩
        intro j t hj
        have := htm j t hj
        simp only [List.length_set]
        grind
      · intro h; simp [hc] at h
    · simp [recvIdx, hc, hi]
    · refine ⟨rfl, rfl, rfl, rfl, rfl, s.learners, l, l', Or.inl ⟨?_, rfl, rfl, rfl, rfl⟩, ?_, hp, ?_⟩
      · simp [creates, h0]
      · rw [hi, ← getLast?_eq_getElem?_pred]; exact hl
      · rw [hi]
  · obtain ⟨hph, hcm, ac', hac', hlt, htm⟩ := hI.rr hc
    rw [hac] at hac'
    cases hac'
    refine ⟨?_, ?_, ?_⟩
    · refine { ha := hI.ha, hm := hI.hm, hN := hI.hN, hn := hI.hn, hV := ?_, hT := ?_,
               create := ?_, rr := ?_ }
      · simp [hI.hV]
      · simp [hI.hT]
      · intro h; simp [hc] at h
      · intro _
        exact ⟨hph, hcm, i, hac, by simpa using hlt, htm⟩
    · simp [recvIdx, hc, hac]
    · refine ⟨rfl, rfl, rfl, rfl, rfl, s.learners, l, l', Or.inl ⟨?_, rfl, rfl, rfl, rfl⟩, hl, hp, rfl⟩
      simp [creates, hc]

theorem pull_total {ops : LearnerOps L α R Pt ρ} {cfg : POOCfg R S ρ} {s : POO L S} {a m : Nat}
    (hI : InvAM cfg s a m) (hops : OpsTotal ops) (time : Nat) (ds : List (Draw α)) :
    ∃ s1 ds1 i pt, pull ops cfg s time ds = .ok (s1, ds1, i, pt) := by
  obtain ⟨hcr, hpl, _⟩ := hops
  by_cases hc : cfg.cond s.N s.n = true
  · by_cases h0 : s.counter = 0
    · obtain ⟨⟨lnew, ds1⟩, e1⟩ := hcr (cfg.rhoOf s.N s.phase) ds
      obtain ⟨⟨l', pt⟩, e2⟩ := hpl lnew time
      exact ⟨_, ds1, _, pt, (pull_ok_iff ..).mpr (Or.inl ⟨hc, h0, lnew, l', e1, e2, rfl, rfl⟩)⟩
    · obtain ⟨_, _, hne, _⟩ := hI.create hc
      have hne := hne (by omega)
      obtain ⟨l, hl⟩ : ∃ l, s.learners.getLast? = some l := by
        cases h : s.learners.getLast? with
        | none => exact absurd (List.getLast?_eq_none_iff.mp h) hne
        | some l => exact ⟨l, rfl⟩
      obtain ⟨⟨l', pt⟩, e2⟩ := hpl l time
      exact ⟨_, ds, _, pt, (pull_ok_iff ..).mpr (Or.inr (Or.inl ⟨hc, h0, l, l', hl, e2, rfl, rfl, rfl⟩))⟩
  · simp only [Bool.not_eq_true] at hc
    obtain ⟨_, _, ac, hac, hlt, _⟩ := hI.rr hc
    obtain ⟨⟨l', pt⟩, e2⟩ := hpl s.learners[ac] time
    exact ⟨_, ds, _, pt, (pull_ok_iff ..).mpr (Or.inr (Or.inr ⟨hc, ac, _, l', hac,
      List.getElem?_eq_getElem hlt, e2, rfl, rfl, rfl⟩))⟩

theorem recvCreate_lists (cfg : POOCfg R S ρ) (s : POO L S) (l' : L) (v : S) (t : Nat) (r : R) :
    (recvCreate cfg s l' v t r).learners = s.learners.set (s.learners.length - 1) l' ∧
    (recvCreate cfg s l' v t r).V = s.V.set (s.V.length - 1) (cfg.upd v s.counter r) ∧
    (recvCreate cfg s l' v t r).times = s.times.set (s.times.length - 1) (t + 1) := by
  unfold recvCreate
  dsimp only
  split <;> split <;> exact ⟨rfl, rfl, rfl⟩

theorem recvRR_lists (cfg : POOCfg R S ρ) (s : POO L S) (ac : Nat) (l' : L) (v : S) (t : Nat) (r : R) :
    (recvRR cfg s ac l' v t r).learners = s.learners.set ac l' ∧
    (recvRR cfg s ac l' v t r).V = s.V.set ac (cfg.upd v (ceilDiv s.n s.N) r) ∧
    (recvRR cfg s ac l' v t r).times = s.times.set ac (t + 1) := by
  unfold recvRR
  dsimp only
  split <;> exact ⟨rfl, rfl, rfl⟩

theorem recvCreate_inv {cfg : POOCfg R S ρ} {s : POO L S} {a m : Nat} (hR : ReadyAM cfg s a m)
    (hc : cfg.cond s.N s.n = true) (l' : L) (v : S) (r : R) :
    ∃ a' m', InvAM cfg (recvCreate cfg s l' v s.counter r) a' m' := by
  obtain ⟨hph, hcm, hne, htm⟩ := hR.create hc
  have hN0 : 0 < s.N := by rw [hR.hN]; exact Nat.pow_pos (by omega)
  have hcd : ceilDiv s.n s.N = m := by rw [hR.hn]; exact ceilDiv_mul m s.N hN0
  have hlen : 0 < s.learners.length := List.length_pos_iff.mpr hne
  have hV := hR.hV
  have hT := hR.hT
  unfold recvCreate
  dsimp only
  rw [hcd]
  by_cases h1 : s.counter + 1 ≥ m
  · simp only [h1, if_true]
    by_cases h2 : s.phase + 1 ≥ s.N
    · simp only [h2, if_true]
      refine ⟨a + 1, m, ?_⟩
      refine { ha := by omega, hm := hR.hm, hN := ?_, hn := ?_, hV := ?_, hT := ?_, create := ?_, rr := ?_ }
      · simp only [hR.hN, Nat.pow_succ]; omega
      · simp only [hR.hn]; rw [Nat.mul_left_comm]
      · simp [hV]
      · simp [hT]
      · intro _
        simp only [List.length_set]
        refine ⟨by omega, by omega, by simp, ?_⟩
        intro j t hj
        grind
      · intro _
        refine ⟨rfl, rfl, 0, rfl, by simpa using hlen, ?_⟩
        intro j t hj
        grind
    · simp only [h2, if_false]
      refine ⟨a, m, ?_⟩
      refine { ha := hR.ha, hm := hR.hm, hN := hR.hN, hn := hR.hn, hV := ?_, hT := ?_, create := ?_, rr := ?_ }
      · simp [hV]
      · simp [hT]
      · intro _
        simp only [List.length_set]
        refine ⟨by omega, by omega, by simp, ?_⟩
        intro j t hj
        grind
      · intro h; simp [hc] at h
  · simp only [h1, if_false]
    have h2 : ¬ s.phase ≥ s.N := by omega
    simp only [h2, if_false]
    refine ⟨a, m, ?_⟩
    refine { ha := hR.ha, hm := hR.hm, hN := hR.hN, hn := hR.hn, hV := ?_, hT := ?_, create := ?_, rr := ?_ }
    · simp [hV]
    · simp [hT]
    · intro _
      simp only [List.length_set]
      refine ⟨by omega, by omega, fun _ => by simpa using hne, ?_⟩
      intro j t hj
      grind
    · intro h; simp [hc] at h

theorem recvRR_inv {cfg : POOCfg R S ρ} {s : POO L S} {a m : Nat} (hR : ReadyAM cfg s a m)
    (hc : cfg.cond s.N s.n = false) {ac : Nat} (hac : s.algoCounter = some ac) (l' : L) (v : S) (r : R) :
    ∃ a' m', InvAM cfg (recvRR cfg s ac l' v m r) a' m' := by
  obtain ⟨hph, hcm, ac', hac', hlt, htm⟩ := hR.rr hc
  rw [hac] at hac'
  cases hac'
  have hN0 : 0 < s.N := by rw [hR.hN]; exact Nat.pow_pos (by omega)
  have hV := hR.hV
  have hT := hR.hT
  unfold recvRR
  dsimp only
  simp only [List.length_set]
  by_cases h1 : ac + 1 = s.learners.length
  · simp only [h1, if_true]
    refine ⟨a, m + 1, ?_⟩
    refine { ha := hR.ha, hm := by omega, hN := hR.hN, hn := ?_, hV := ?_, hT := ?_, create := ?_, rr := ?_ }
    · simp only [hR.hn, Nat.succ_mul]
    · simp [hV]
    · simp [hT]
    · intro _
      simp only [List.length_set]
      refine ⟨by omega, by omega, by omega, ?_⟩
      intro j t hj
      grind
    · intro _
      refine ⟨hph, hcm, 0, rfl, by simp; omega, ?_⟩
      intro j t hj
      grind
  · simp only [h1, if_false]
    refine ⟨a, m, ?_⟩
    refine { ha := hR.ha, hm := hR.hm, hN := hR.hN, hn := hR.hn, hV := ?_, hT := ?_, create := ?_, rr := ?_ }
    · simp [hV]
    · simp [hT]
    · intro h; simp [hc] at h
    · intro _
      refine ⟨hph, hcm, ac + 1, rfl, by simp; omega, ?_⟩
      intro j t hj
      grind

theorem receive_inv {ops : LearnerOps L α R Pt ρ} {cfg : POOCfg R S ρ} {s s2 : POO L S} {a m time : Nat}
    {r : R} {ds ds2 : List (Draw α)} (hR : ReadyAM cfg s a m)
    (h : receive ops cfg s time r ds = .ok (s2, ds2)) :
    (∃ a' m', InvAM cfg s2 a' m') ∧ RecvEffect ops cfg s time r ds s2 ds2 (recvIdx cfg s) := by
  rw [receive_ok_iff] at h
  have hV := hR.hV
  have hT := hR.hT
  rcases h with ⟨hc, l, v, t, l', hl, hv, ht, hp, rfl⟩ | ⟨hc, ac, l, v, t, l', hac, hl, hv, ht, hp, rfl⟩
  · obtain ⟨hph, hcm, hne, htm⟩ := hR.create hc
    rw [getLast?_eq_getElem?_pred] at hl hv ht
    have htc : t = s.counter := by
      have := htm _ _ ht
      rw [hT] at this
      have hlen : 0 < s.learners.length := List.length_pos_iff.mpr hne
      simpa [show s.learners.length - 1 + 1 = s.learners.length by omega] using this
    subst htc
    refine ⟨recvCreate_inv hR hc l' v r, ?_⟩
    obtain ⟨e1, e2, e3⟩ := recvCreate_lists cfg s l' v s.counter r
    have hj : recvIdx cfg s = s.learners.length - 1 := by simp [recvIdx, hc]
    rw [hj]
    rw [hV] at hv e2
    rw [hT] at ht e3
    exact ⟨l, l', v, s.counter, hl, hv, ht, hp, e1, e2, e3⟩
  · obtain ⟨hph, hcm, ac', hac', hlt, htm⟩ := hR.rr hc
    rw [hac] at hac'
    cases hac'
    have htc : t = m := by
      have := htm _ _ ht
      simpa using this
    subst htc
    have hN0 : 0 < s.N := by rw [hR.hN]; exact Nat.pow_pos (by omega)
    have hcd : ceilDiv s.n s.N = t := by rw [hR.hn]; exact ceilDiv_mul t s.N hN0
    refine ⟨recvRR_inv hR hc hac l' v r, ?_⟩
    obtain ⟨e1, e2, e3⟩ := recvRR_lists cfg s ac l' v t r
    have hj : recvIdx cfg s = ac := by simp [recvIdx, hc, hac]
    rw [hj]
    rw [hcd] at e2
    exact ⟨l, l', v, t, hl, hv, ht, hp, e1, e2, e3⟩

theorem receive_total {ops : LearnerOps L α R Pt ρ} {cfg : POOCfg R S ρ} {s : POO L S} {a m : Nat}
    (hR : ReadyAM cfg s a m) (hops : OpsTotal ops) (time : Nat) (r : R) (ds : List (Draw α)) :
    ∃ s2 ds2, receive ops cfg s time r ds = .ok (s2, ds2) := by
  obtain ⟨_, _, hrc⟩ := hops
  have hV := hR.hV
  have hT := hR.hT
  by_cases hc : cfg.cond s.N s.n = true
  · obtain ⟨_, _, hne, _⟩ := hR.create hc
    have hlen : 0 < s.learners.length := List.length_pos_iff.mpr hne
    obtain ⟨⟨l', ds2⟩, e⟩ := hrc s.learners[s.learners.length - 1] time r ds
    refine ⟨_, ds2, (receive_ok_iff ..).mpr (Or.inl ⟨hc, _, s.V[s.V.length - 1], s.times[s.times.length - 1], l',
      ?_, ?_, ?_, e, rfl⟩)⟩
    · rw [getLast?_eq_getElem?_pred, List.getElem?_eq_getElem]
    · rw [getLast?_eq_getElem?_pred, List.getElem?_eq_getElem]
    · rw [getLast?_eq_getElem?_pred, List.getElem?_eq_getElem]
  · simp only [Bool.not_eq_true] at hc
    obtain ⟨_, _, ac, hac, hlt, _⟩ := hR.rr hc
    obtain ⟨⟨l', ds2⟩, e⟩ := hrc s.learners[ac] time r ds
    exact ⟨_, ds2, (receive_ok_iff ..).mpr (Or.inr ⟨hc, ac, _, s.V[ac], s.times[ac], l', hac,
      List.getElem?_eq_getElem hlt, List.getElem?_eq_getElem (by omega), List.getElem?_eq_getElem (by omega),
      e, rfl⟩)⟩

theorem receive_nextKey {ops : LearnerOps L α R Pt ρ} {cfg : POOCfg R S ρ} {s s2 : POO L S} {a m time : Nat}
    {r : R} {ds ds2 : List (Draw α)} (hR : ReadyAM cfg s a m)
    (h : receive ops cfg s time r ds = .ok (s2, ds2)) :
    (cfg.cond s.N s.n = true → s.N + s.phase + 1 ≤ nextKey s2) ∧
    (cfg.cond s.N s.n = false → nextKey s2 = nextKey s) := by
  rw [receive_ok_iff] at h
  rcases h with ⟨hc, l, v, t, l', hl, hv, ht, hp, rfl⟩ | ⟨hc, ac, l, v, t, l', hac, hl, hv, ht, hp, rfl⟩
  · refine ⟨fun _ => ?_, fun h => by simp [hc] at h⟩
    obtain ⟨hph, hcm, hne, htm⟩ := hR.create hc
    unfold recvCreate nextKey
    dsimp only
    split <;> split <;> simp <;> omega
  · refine ⟨fun h => by simp [hc] at h, fun _ => ?_⟩
    obtain ⟨hph, hcm, -⟩ := hR.rr hc
    unfold recvRR nextKey
    dsimp only
    split <;> simp [hph]

end PyXAB.MT
