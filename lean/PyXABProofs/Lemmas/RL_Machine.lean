/-
  Generic state-machine lemmas: product machines (isolation, C14) and relational simulation of
  whole runs (used by C15 / C16).
-/
import PyXABProofs.Spec.RelSpec

namespace PyXAB
namespace RL
open Rel

/-- Case analysis for goals in which both sides branch on the same scrutinees: split the first
`match` / `if`, and use the equation to reduce the other side. -/
macro "split_both" : tactic => `(tactic| repeat' (split <;> try simp only [*]))


theorem mapRes_ok {ε A B A' B' : Type} (f : A → A') (g : B → B') (a : A) (b : B) :
    mapRes (ε := ε) f g (.ok (a, b)) = .ok (f a, g b) := rfl
theorem mapRes_ok' {ε A B A' B' : Type} (f : A → A') (g : B → B') (x : A × B) :
    mapRes (ε := ε) f g (.ok x) = .ok (f x.1, g x.2) := rfl
theorem mapRes_error {ε A B A' B' : Type} (f : A → A') (g : B → B') (e : ε) :
    mapRes f g (.error e : Except ε (A × B)) = .error e := rfl
theorem mapRes1_ok {ε A A' : Type} (f : A → A') (a : A) : mapRes1 (ε := ε) f (.ok a) = .ok (f a) := rfl
theorem mapRes1_error {ε A A' : Type} (f : A → A') (e : ε) :
    mapRes1 f (.error e : Except ε A) = .error e := rfl

theorem ite_mapRes {ε A B A' B' : Type} (f : A → A') (g : B → B') (c : Prop) [Decidable c]
    (x : Except ε (A × B)) (a : A) (b : B) :
    (if c then mapRes f g x else .ok (f a, g b)) = mapRes f g (if c then x else .ok (a, b)) := by
  split <;> rfl

section machines
variable {σ σ' σ₁ σ₂ ι ι' ι₁ ι₂ ο ο' ο₁ ο₂ ε : Type}

theorem runM_nil (step : σ → ι → Except ε (σ × ο)) (s : σ) : runM step s [] = .ok (s, []) := rfl

theorem runM_cons_ok {step : σ → ι → Except ε (σ × ο)} {s s1 : σ} {i : ι} {o : ο}
    (h : step s i = .ok (s1, o)) (is : List ι) :
    runM step s (i :: is) =
      match runM step s1 is with
      | .error e => .error e
      | .ok (s2, os) => .ok (s2, o :: os) := by
  simp only [runM, h]; rfl

theorem runM_cons_error {step : σ → ι → Except ε (σ × ο)} {s : σ} {i : ι} {e : ε}
    (h : step s i = .error e) (is : List ι) : runM step s (i :: is) = .error e := by
  simp only [runM, h]

/-- runs compose -/
theorem runM_append (step : σ → ι → Except ε (σ × ο)) (s : σ) (l₁ l₂ : List ι) :
    runM step s (l₁ ++ l₂) =
      match runM step s l₁ with
      | .error e => .error e
      | .ok (s1, os1) =>
        match runM step s1 l₂ with
        | .error e => .error e
        | .ok (s2, os2) => .ok (s2, os1 ++ os2) := by
  induction l₁ generalizing s with
  | nil =>
    simp only [List.nil_append, runM]
    cases runM step s l₂ with
    | error e => rfl
    | ok x => rfl
  | cons i is ih =>
    rw [List.cons_append]
    cases h : step s i with
    | error e => simp only [runM, h]
    | ok x =>
      obtain ⟨s1, o⟩ := x
      rw [runM_cons_ok h, runM_cons_ok h, ih]
      cases runM step s1 is with
      | error e => rfl
      | ok y =>
        obtain ⟨s2, os⟩ := y
        simp only []
        cases runM step s2 l₂ with
        | error e => rfl
        | ok z => rfl

theorem lefts_nil {A B : Type} : lefts ([] : List (A ⊕ B)) = [] := rfl
theorem rights_nil {A B : Type} : rights ([] : List (A ⊕ B)) = [] := rfl
theorem lefts_inl {A B : Type} (a : A) (l : List (A ⊕ B)) : lefts (.inl a :: l) = a :: lefts l := rfl
theorem lefts_inr {A B : Type} (b : B) (l : List (A ⊕ B)) : lefts (.inr b :: l) = lefts l := rfl
theorem rights_inl {A B : Type} (a : A) (l : List (A ⊕ B)) : rights (.inl a :: l) = rights l := rfl
theorem rights_inr {A B : Type} (b : B) (l : List (A ⊕ B)) : rights (.inr b :: l) = b :: rights l := rfl

theorem lefts_append {A B : Type} (l l' : List (A ⊕ B)) : lefts (l ++ l') = lefts l ++ lefts l' := by
  simp only [lefts, List.filterMap_append]

theorem rights_append {A B : Type} (l l' : List (A ⊕ B)) :
    rights (l ++ l') = rights l ++ rights l' := by
  simp only [rights, List.filterMap_append]

variable (step₁ : σ₁ → ι₁ → Except ε (σ₁ × ο₁)) (step₂ : σ₂ → ι₂ → Except ε (σ₂ × ο₂))

/-- Isolation, success case: if the interleaved run of two instances succeeds, each component of
the final state and each sub-sequence of outputs is what the instance produces when run alone
on the sub-sequence of its own operations. -/
theorem runPair_ok : ∀ (l : List (ι₁ ⊕ ι₂)) (s₁ : σ₁) (s₂ : σ₂) (t₁ : σ₁) (t₂ : σ₂)
    (os : List (ο₁ ⊕ ο₂)),
    runM (stepPair step₁ step₂) (s₁, s₂) l = .ok ((t₁, t₂), os) →
      runM step₁ s₁ (lefts l) = .ok (t₁, lefts os) ∧ runM step₂ s₂ (rights l) = .ok (t₂, rights os)
  | [], s₁, s₂, t₁, t₂, os, h => by
    simp only [runM, Except.ok.injEq, Prod.mk.injEq] at h
    obtain ⟨⟨rfl, rfl⟩, rfl⟩ := h
    exact ⟨rfl, rfl⟩
  | .inl i :: l, s₁, s₂, t₁, t₂, os, h => by
    cases h1 : step₁ s₁ i with
    | error e => simp [runM, stepPair, h1] at h
    | ok x =>
      obtain ⟨u₁, o⟩ := x
      have hs : stepPair step₁ step₂ (s₁, s₂) (.inl i) = .ok ((u₁, s₂), .inl o) := by
        simp only [stepPair, h1]
      rw [runM_cons_ok hs] at h
      cases h2 : runM (stepPair step₁ step₂) (u₁, s₂) l with
      | error e => simp [h2] at h
      | ok y =>
        obtain ⟨⟨v₁, v₂⟩, os'⟩ := y
        simp only [h2, Except.ok.injEq, Prod.mk.injEq] at h
        obtain ⟨⟨rfl, rfl⟩, rfl⟩ := h
        obtain ⟨a, b⟩ := runPair_ok l u₁ s₂ v₁ v₂ os' h2
        refine ⟨?_, ?_⟩
        · rw [lefts_inl, runM_cons_ok h1, a]; rfl
        · rw [rights_inl, b]; rfl
  | .inr i :: l, s₁, s₂, t₁, t₂, os, h => by
    cases h1 : step₂ s₂ i with
    | error e => simp [runM, stepPair, h1] at h
    | ok x =>
      obtain ⟨u₂, o⟩ := x
      have hs : stepPair step₁ step₂ (s₁, s₂) (.inr i) = .ok ((s₁, u₂), .inr o) := by
        simp only [stepPair, h1]
      rw [runM_cons_ok hs] at h
      cases h2 : runM (stepPair step₁ step₂) (s₁, u₂) l with
      | error e => simp [h2] at h
      | ok y =>
        obtain ⟨⟨v₁, v₂⟩, os'⟩ := y
        simp only [h2, Except.ok.injEq, Prod.mk.injEq] at h
        obtain ⟨⟨rfl, rfl⟩, rfl⟩ := h
        obtain ⟨a, b⟩ := runPair_ok l s₁ u₂ v₁ v₂ os' h2
        refine ⟨?_, ?_⟩
        · rw [lefts_inr, a]; rfl
        · rw [rights_inr, runM_cons_ok h1, b]; rfl

/-- Isolation, converse: if both solo runs succeed, so does every interleaving, with exactly
these final states and outputs. -/
theorem runPair_of_solo : ∀ (l : List (ι₁ ⊕ ι₂)) (s₁ : σ₁) (s₂ : σ₂) (t₁ : σ₁) (t₂ : σ₂)
    (o₁ : List ο₁) (o₂ : List ο₂),
    runM step₁ s₁ (lefts l) = .ok (t₁, o₁) → runM step₂ s₂ (rights l) = .ok (t₂, o₂) →
      ∃ os, runM (stepPair step₁ step₂) (s₁, s₂) l = .ok ((t₁, t₂), os) ∧
        lefts os = o₁ ∧ rights os = o₂
  | [], s₁, s₂, t₁, t₂, o₁, o₂, h1, h2 => by
    simp only [lefts_nil, rights_nil, runM, Except.ok.injEq, Prod.mk.injEq] at h1 h2
    obtain ⟨rfl, rfl⟩ := h1
    obtain ⟨rfl, rfl⟩ := h2
    exact ⟨[], rfl, rfl, rfl⟩
  | .inl i :: l, s₁, s₂, t₁, t₂, o₁, o₂, h1, h2 => by
    rw [lefts_inl] at h1
    rw [rights_inl] at h2
    cases h3 : step₁ s₁ i with
    | error e => simp [runM, h3] at h1
    | ok x =>
      obtain ⟨u₁, o⟩ := x
      rw [runM_cons_ok h3] at h1
      cases h4 : runM step₁ u₁ (lefts l) with
      | error e => simp [h4] at h1
      | ok y =>
        obtain ⟨v₁, os1⟩ := y
        simp only [h4, Except.ok.injEq, Prod.mk.injEq] at h1
        obtain ⟨rfl, rfl⟩ := h1
        obtain ⟨os, a, b, c⟩ := runPair_of_solo l u₁ s₂ v₁ t₂ os1 o₂ h4 h2
        have hs : stepPair step₁ step₂ (s₁, s₂) (.inl i) = .ok ((u₁, s₂), .inl o) := by
          simp only [stepPair, h3]
        refine ⟨.inl o :: os, ?_, ?_, ?_⟩
        · rw [runM_cons_ok hs, a]
        · rw [lefts_inl, b]
        · rw [rights_inl, c]
  | .inr i :: l, s₁, s₂, t₁, t₂, o₁, o₂, h1, h2 => by
    rw [lefts_inr] at h1
    rw [rights_inr] at h2
    cases h3 : step₂ s₂ i with
    | error e => simp [runM, h3] at h2
    | ok x =>
      obtain ⟨u₂, o⟩ := x
      rw [runM_cons_ok h3] at h2
      cases h4 : runM step₂ u₂ (rights l) with
      | error e => simp [h4] at h2
      | ok y =>
        obtain ⟨v₂, os2⟩ := y
        simp only [h4, Except.ok.injEq, Prod.mk.injEq] at h2
        obtain ⟨rfl, rfl⟩ := h2
        obtain ⟨os, a, b, c⟩ := runPair_of_solo l s₁ u₂ t₁ v₂ o₁ os2 h1 h4
        have hs : stepPair step₁ step₂ (s₁, s₂) (.inr i) = .ok ((s₁, u₂), .inr o) := by
          simp only [stepPair, h3]
        refine ⟨.inr o :: os, ?_, ?_, ?_⟩
        · rw [runM_cons_ok hs, a]
        · rw [lefts_inr, b]
        · rw [rights_inr, c]

/-- A failing run stops at a first failing operation: everything before it succeeded. -/
theorem runM_error_split (step : σ → ι → Except ε (σ × ο)) :
    ∀ (l : List ι) (s : σ) (e : ε), runM step s l = .error e →
      ∃ pre x post t os, l = pre ++ x :: post ∧ runM step s pre = .ok (t, os) ∧
        step t x = .error e
  | [], s, e, h => by simp [runM] at h
  | i :: l, s, e, h => by
    cases h1 : step s i with
    | error e' =>
      rw [runM_cons_error h1] at h
      obtain rfl := Except.error.inj h
      exact ⟨[], i, l, s, [], rfl, rfl, h1⟩
    | ok x =>
      obtain ⟨s1, o⟩ := x
      rw [runM_cons_ok h1] at h
      cases h2 : runM step s1 l with
      | ok y => simp [h2] at h
      | error e' =>
        simp only [h2] at h
        obtain rfl := Except.error.inj h
        obtain ⟨pre, x, post, t, os, a, b, c⟩ := runM_error_split step l s1 e' h2
        refine ⟨i :: pre, x, post, t, o :: os, by rw [a]; rfl, ?_, c⟩
        rw [runM_cons_ok h1, b]

theorem runM_prefix_error (step : σ → ι → Except ε (σ × ο)) (s t : σ) (pre post : List ι) (x : ι)
    (os : List ο) (e : ε) (h : runM step s pre = .ok (t, os)) (hx : step t x = .error e) :
    runM step s (pre ++ x :: post) = .error e := by
  rw [runM_append, h]
  simp only [runM_cons_error hx]

/-- Isolation, failing case: the first failure of the interleaved run is a failure of the
instance that executed the failing operation, in the state reached by its own solo run; hence
that instance's solo run fails with the same exception, and until then both instances behaved
as in their solo runs. -/
theorem runPair_error (l : List (ι₁ ⊕ ι₂)) (s₁ : σ₁) (s₂ : σ₂) (e : ε)
    (h : runM (stepPair step₁ step₂) (s₁, s₂) l = .error e) :
    ∃ pre x post t₁ t₂ os, l = pre ++ x :: post ∧
      runM (stepPair step₁ step₂) (s₁, s₂) pre = .ok ((t₁, t₂), os) ∧
      runM step₁ s₁ (lefts pre) = .ok (t₁, lefts os) ∧
      runM step₂ s₂ (rights pre) = .ok (t₂, rights os) ∧
      (match x with
       | .inl i => step₁ t₁ i = .error e ∧ runM step₁ s₁ (lefts l) = .error e
       | .inr i => step₂ t₂ i = .error e ∧ runM step₂ s₂ (rights l) = .error e) := by
  obtain ⟨pre, x, post, ⟨t₁, t₂⟩, os, a, b, c⟩ := runM_error_split _ l (s₁, s₂) e h
  obtain ⟨b1, b2⟩ := runPair_ok step₁ step₂ pre s₁ s₂ t₁ t₂ os b
  refine ⟨pre, x, post, t₁, t₂, os, a, b, b1, b2, ?_⟩
  cases x with
  | inl i =>
    have c1 : step₁ t₁ i = .error e := by
      cases h1 : step₁ t₁ i with
      | error e' => simpa [stepPair, h1] using c
      | ok y => simp [stepPair, h1] at c
    refine ⟨c1, ?_⟩
    rw [a, lefts_append, lefts_inl]
    exact runM_prefix_error step₁ s₁ t₁ _ _ i _ e b1 c1
  | inr i =>
    have c1 : step₂ t₂ i = .error e := by
      cases h1 : step₂ t₂ i with
      | error e' => simpa [stepPair, h1] using c
      | ok y => simp [stepPair, h1] at c
    refine ⟨c1, ?_⟩
    rw [a, rights_append, rights_inr]
    exact runM_prefix_error step₂ s₂ t₂ _ _ i _ e b2 c1

/-- In particular: a failing interleaved run means that one of the solo runs fails, with the
same exception. -/
theorem runPair_error_solo (l : List (ι₁ ⊕ ι₂)) (s₁ : σ₁) (s₂ : σ₂) (e : ε)
    (h : runM (stepPair step₁ step₂) (s₁, s₂) l = .error e) :
    runM step₁ s₁ (lefts l) = .error e ∨ runM step₂ s₂ (rights l) = .error e := by
  obtain ⟨pre, x, post, t₁, t₂, os, _, _, _, _, hx⟩ := runPair_error step₁ step₂ l s₁ s₂ e h
  cases x with
  | inl i => exact Or.inl hx.2
  | inr i => exact Or.inr hx.2

end machines

/-! ### Relational simulation of whole runs -/
section sim
variable {σ σ' ι ι' ο ο' ε : Type}

theorem RelRes.ok_left {Rs : σ → σ' → Prop} {Q : ο → ο' → Prop} {s : σ} {o : ο}
    {y : Except ε (σ' × ο')} (h : RelRes Rs Q (.ok (s, o)) y) :
    ∃ s' o', y = .ok (s', o') ∧ Rs s s' ∧ Q o o' := by
  cases y with
  | error e => exact h.elim
  | ok v => obtain ⟨s', o'⟩ := v; exact ⟨s', o', rfl, h.1, h.2⟩

theorem RelRes.error_left {Rs : σ → σ' → Prop} {Q : ο → ο' → Prop} {e : ε}
    {y : Except ε (σ' × ο')} (h : RelRes Rs Q (.error e : Except ε (σ × ο)) y) : y = .error e := by
  cases y with
  | error e' => exact congrArg _ (Eq.symm h)
  | ok v => obtain ⟨s', o'⟩ := v; exact h.elim

theorem RelRes.mono {Rs Rs' : σ → σ' → Prop} {Q Q' : ο → ο' → Prop}
    {x : Except ε (σ × ο)} {y : Except ε (σ' × ο')} (h : RelRes Rs Q x y)
    (h1 : ∀ a b, Rs a b → Rs' a b) (h2 : ∀ a b, Q a b → Q' a b) : RelRes Rs' Q' x y := by
  cases x with
  | error e => rw [(RelRes.error_left h)]; exact rfl
  | ok v =>
    obtain ⟨s, o⟩ := v
    obtain ⟨s', o', rfl, a, b⟩ := (RelRes.ok_left h)
    exact ⟨h1 _ _ a, h2 _ _ b⟩

/-- Step-wise simulation lifts to whole runs. -/
theorem runM_rel {Rs : σ → σ' → Prop} {Q : ο → ο' → Prop} {I : ι → ι' → Prop}
    {step : σ → ι → Except ε (σ × ο)} {step' : σ' → ι' → Except ε (σ' × ο')}
    (hstep : ∀ s s' i i', Rs s s' → I i i' → RelRes Rs Q (step s i) (step' s' i')) :
    ∀ (l : List ι) (l' : List ι') (s : σ) (s' : σ'), Rs s s' → List.Forall₂ I l l' →
      RelRes Rs (List.Forall₂ Q) (runM step s l) (runM step' s' l')
  | [], _, s, s', hs, hl => by
    cases hl
    exact ⟨hs, List.Forall₂.nil⟩
  | i :: l, _, s, s', hs, hl => by
    cases hl with
    | cons hi hl =>
      rename_i i' l'
      have h1 := hstep s s' i i' hs hi
      cases h2 : step s i with
      | error e =>
        rw [h2] at h1
        rw [runM_cons_error h2, runM_cons_error (RelRes.error_left h1)]
        exact rfl
      | ok v =>
        obtain ⟨s1, o⟩ := v
        rw [h2] at h1
        obtain ⟨s1', o', h3, h4, h5⟩ := (RelRes.ok_left h1)
        rw [runM_cons_ok h2, runM_cons_ok h3]
        have ih := runM_rel hstep l l' s1 s1' h4 hl
        cases h6 : runM step s1 l with
        | error e =>
          rw [h6] at ih
          rw [(RelRes.error_left ih)]
          exact rfl
        | ok w =>
          obtain ⟨s2, os⟩ := w
          rw [h6] at ih
          obtain ⟨s2', os', h7, h8, h9⟩ := (RelRes.ok_left ih)
          rw [h7]
          exact ⟨h8, List.Forall₂.cons h5 h9⟩

/-- With equality on outputs, related runs produce the same output sequence. -/
theorem outs_eq_of_rel {Rs : σ → σ' → Prop} {x : Except ε (σ × List ο)}
    {y : Except ε (σ' × List ο)} (h : RelRes Rs (List.Forall₂ Eq) x y) : outs x = outs y := by
  cases x with
  | error e => rw [(RelRes.error_left h)]; rfl
  | ok v =>
    obtain ⟨s, os⟩ := v
    obtain ⟨s', os', rfl, _, h2⟩ := (RelRes.ok_left h)
    rw [List.forall₂_eq_eq_eq] at h2
    rw [h2]; rfl

/-- Functional special case: `step' (f s) (g i) = map (f, k) (step s i)`. -/
theorem runM_map {f : σ → σ'} {g : ι → ι'} {k : ο → ο'}
    {step : σ → ι → Except ε (σ × ο)} {step' : σ' → ι' → Except ε (σ' × ο')}
    (hstep : ∀ s i, step' (f s) (g i) = mapRes f k (step s i)) (l : List ι) (s : σ) :
    runM step' (f s) (l.map g) = mapRes f (List.map k) (runM step s l) := by
  induction l generalizing s with
  | nil => rfl
  | cons i l ih =>
    rw [List.map_cons]
    cases h : step s i with
    | error e =>
      have h' : step' (f s) (g i) = .error e := by rw [hstep, h]; rfl
      rw [runM_cons_error h, runM_cons_error h']; rfl
    | ok v =>
      obtain ⟨s1, o⟩ := v
      have h' : step' (f s) (g i) = .ok (f s1, k o) := by rw [hstep, h]; rfl
      rw [runM_cons_ok h, runM_cons_ok h', ih]
      cases runM step s1 l with
      | error e => rfl
      | ok w => rfl

end sim

end RL
end PyXAB
