/-
  Concrete data for the counterexample and the non-vacuity examples of C11: a configuration over
  `ℚ`, the interval `[0,1]` with binary midpoint splits, and a 3-round run whose last round
  refines a cell whose arm sits on the common boundary of the two children.
-/
import PyXABProofs.Lemmas.ZM_Run
import PyXABProofs.Lemmas.ZM_Stats
import Mathlib.Algebra.Order.Field.Rat

namespace PyXAB
namespace ZM
open Zooming _root_.PyXAB.Tree

/-- a simple configuration over `ℚ` (no square roots: `index = avg + 8*phase/(2+pulls)`,
refinement as soon as `pulls > depth`) -/
def exCfg : ZoomCfg ℚ ℚ :=
  { negInf := -1, zero := 0
    indexOf := fun avg ph n => avg + 8 * (ph : ℚ) / (2 + (n : ℚ))
    upd := fun avg n r => (avg * (n : ℚ) + r) / ((n : ℚ) + 1)
    refine := fun _ n d => decide (d + 1 ≤ n) }

/-- the interval `[0,1]` -/
def dom01 : Box ℚ := [⟨0, 1⟩]
def d0 : Draw ℚ := ⟨0, []⟩

/-- `[0,1]` after one binary midpoint split: cells `1 = [0,1/2]` and `2 = [1/2,1]`. -/
def cxP : Part ℚ Unit := getOk ((Part.init .binary dom01 ()).makeChildren () 0 true d0)

instance : Inhabited (Zooming ℚ ℚ) := ⟨⟨default, [], 0, 0, 0, none⟩⟩

theorem eq_ok_getOk {β : Type} [Inhabited β] (x : Except Err β)
    (h : x.isOk = true) : x = .ok (getOk x) := by
  cases x with
  | ok v => rfl
  | error e => cases h

theorem dom01_valid : Box.Valid dom01 := by
  intro iv hiv
  simp only [dom01, List.mem_cons, List.not_mem_nil, or_false] at hiv
  subst hiv
  show (0 : ℚ) ≤ 1
  decide +kernel

/-- the state after `init` -/
def st0 : Zooming ℚ ℚ := (getOk (Zooming.init exCfg .binary dom01 [d0])).1
/-- `pull` -/
def pl (s : Zooming ℚ ℚ) : Zooming ℚ ℚ × Nat × List ℚ := getOk (pull exCfg s)
/-- `pull` then `receive r` (one draw supplied) -/
def rnd (s : Zooming ℚ ℚ) (r : ℚ) : Zooming ℚ ℚ := (getOk (receive exCfg (pl s).1 r [d0])).1

def st1 : Zooming ℚ ℚ := rnd st0 1
def st2 : Zooming ℚ ℚ := rnd st1 1
def st3 : Zooming ℚ ℚ := rnd st2 1

theorem good0 : GoodRun exCfg .binary dom01 st0 [] :=
  GoodRun.init (d := d0) (ds := []) (by decide) (by show 0 < 1; omega)
    (eq_ok_getOk _ (by decide +kernel))

/-- one more round of the concrete run, from the hypotheses a kernel evaluation can check -/
theorem goodStep {s : Zooming ℚ ℚ} {H : List (Nat × ℚ)} (g : GoodRun exCfg .binary dom01 s H)
    (r : ℚ) (h1 : ∀ a ∈ s.arms, exCfg.negInf ≤ idx exCfg s.phase a)
    (h2 : (pull exCfg s).isOk = true)
    (h3 : (receive exCfg (pl s).1 r [d0]).isOk = true) :
    GoodRun exCfg .binary dom01 (rnd s r) (H ++ [((pl s).2.1, r)]) := by
  have hp : pull exCfg s = .ok ((pl s).1, (pl s).2.1, (pl s).2.2) := eq_ok_getOk _ h2
  obtain ⟨hC, _, hk, hdim⟩ := goodRun_cover dom01_valid g
  obtain ⟨e, _⟩ := pull_inv hp
  refine GoodRun.round g h1 hp ?_ (eq_ok_getOk _ h3)
  rw [e]
  exact recvDrawsOK_binary exCfg (hC.with_best (some (pl s).2.1)) hk (d := d0) (ds' := [])
    (by rw [hdim]; show 0 < 1; omega)

theorem good2 : GoodRun exCfg .binary dom01 st2
    ([] ++ [((pl st0).2.1, (1 : ℚ))] ++ [((pl st1).2.1, 1)]) :=
  goodStep (goodStep good0 1 (by decide +kernel) (by decide +kernel) (by decide +kernel)) 1
    (by decide +kernel) (by decide +kernel) (by decide +kernel)

theorem good3 : GoodRun exCfg .binary dom01 st3 [(1, 1), (0, 1), (1, 1)] := by
  have g3 := goodStep good2 1 (by decide +kernel) (by decide +kernel) (by decide +kernel)
  have e : ([] ++ [((pl st0).2.1, (1 : ℚ))] ++ [((pl st1).2.1, 1)] ++ [((pl st2).2.1, 1)]) =
      [(1, 1), (0, 1), (1, 1)] := by decide +kernel
  exact e ▸ g3

/-- the state between the `pull` and the `receive` of round 3 satisfies the invariant -/
theorem cover_pulled2 : Cover dom01 (pl st2).1 := by
  have hp : pull exCfg st2 = .ok ((pl st2).1, (pl st2).2.1, (pl st2).2.2) :=
    eq_ok_getOk _ (by decide +kernel)
  obtain ⟨e, _⟩ := pull_inv hp
  rw [e]
  exact (goodRun_cover dom01_valid good2).1.with_best _

theorem kind_pulled2 : (pl st2).1.P.kind = .binary ∧ dimn (pl st2).1.P = 1 := by
  decide +kernel

end ZM
end PyXAB
