/-
  StroquOOL: `lastPoint` (closed form, last-argmax, idempotence), `buildCandidates`
  (closed form), `receive`.
-/
import PyXABProofs.Lemmas.SK_Basic

set_option linter.unusedSectionVars false

namespace PyXAB
namespace SK
open Tree TBA StroquOOL

variable {α R S : Type}

section model
variable [LE S] [DecidableLE S]

/-! ### `lastPoint`: closed form -/

/-- every candidate is a `some id` with `id` a valid cell id -/
def CandsValid (s : StroquOOL α R S) : Prop :=
  ∀ c ∈ s.candidate, ∃ id, c = some id ∧ id < s.P.nodes.length

theorem lastPoint_closed (cfg : SkCfg R S) (s : StroquOOL α R S) (hv : CandsValid s) :
    lastPoint cfg s =
      match (pickLast (cmean cfg s.P) s.candidate (cfg.negInf, none)).2 with
      | none => .error .noneDeref
      | some v => .ok ({ s with P := refreshP cfg s.P s.candidate }, v) := by
  rw [lastPoint_eq, lp_fold cfg s.candidate s.P cfg.negInf none hv]
  simp only [bind, Except.bind]
  cases (pickLast (cmean cfg s.P) s.candidate (cfg.negInf, none)).2 <;> rfl

theorem lastPoint_invalid (cfg : SkCfg R S) (s : StroquOOL α R S) (hv : ¬ CandsValid s) :
    ∃ e, lastPoint cfg s = .error e := by
  obtain ⟨e, he⟩ := lp_fold_err cfg s.candidate s.P cfg.negInf none hv
  exact ⟨e, by rw [lastPoint_eq, he]; rfl⟩

theorem lastPoint_ok_iff (cfg : SkCfg R S) (s s' : StroquOOL α R S) (v : Nat) :
    lastPoint cfg s = .ok (s', v) ↔
      CandsValid s ∧ (pickLast (cmean cfg s.P) s.candidate (cfg.negInf, none)).2 = some v ∧
        s' = { s with P := refreshP cfg s.P s.candidate } := by
  by_cases hv : CandsValid s
  · rw [lastPoint_closed cfg s hv]
    cases h : (pickLast (cmean cfg s.P) s.candidate (cfg.negInf, none)).2 with
    | none => simp [hv]
    | some w =>
      simp only [Except.ok.injEq, Prod.mk.injEq, hv, true_and, Option.some.injEq]
      constructor
      · rintro ⟨rfl, rfl⟩; exact ⟨rfl, rfl⟩
      · rintro ⟨rfl, rfl⟩; exact ⟨rfl, rfl⟩
  · obtain ⟨e, he⟩ := lastPoint_invalid cfg s hv
    simp [he, hv]

theorem lastPoint_nil (cfg : SkCfg R S) (s : StroquOOL α R S) (h : s.candidate = []) :
    lastPoint cfg s = .error .noneDeref := by
  rw [lastPoint_eq, h]; rfl

theorem lastPoint_none (cfg : SkCfg R S) (s : StroquOOL α R S)
    (hv : ∀ c, some c ∈ s.candidate → c < s.P.nodes.length) (h : none ∈ s.candidate) :
    lastPoint cfg s = .error .noneDeref := by
  rw [lastPoint_eq, lp_fold_none cfg s.candidate s.P cfg.negInf none hv h]; rfl

/-- `lastPoint` is idempotent: on its own output state it returns the same state and id. -/
theorem lastPoint_idem (cfg : SkCfg R S) {s s' : StroquOOL α R S} {v : Nat}
    (h : lastPoint cfg s = .ok (s', v)) : lastPoint cfg s' = .ok (s', v) := by
  obtain ⟨hv, hp, rfl⟩ := (lastPoint_ok_iff cfg s s' v).1 h
  rw [lastPoint_ok_iff]
  refine ⟨?_, ?_, ?_⟩
  · intro c hc
    obtain ⟨id, h1, h2⟩ := hv c hc
    exact ⟨id, h1, by simpa using h2⟩
  · show (pickLast (cmean cfg (refreshP cfg s.P s.candidate)) s.candidate (cfg.negInf, none)).2 = _
    rw [pickLast_congr (g := cmean cfg s.P) s.candidate _
      (fun c _ => cmean_refreshP cfg s.P s.candidate c)]
    exact hp
  · show _ = { s with P := refreshP cfg (refreshP cfg s.P s.candidate) s.candidate }
    rw [refreshP_idem]

/-! ### `buildCandidates`: closed form -/

theorem buildCandidates_ok_iff (cfg : SkCfg R S) (s s' : StroquOOL α R S) :
    buildCandidates cfg s = .ok s' ↔
      (∀ c ∈ candList cfg s, c ≠ none) ∧
        s' = { s with candidate := candList cfg s, P := clearP s.P (candList cfg s) } := by
  rw [buildCandidates_eq]
  by_cases hv : ∀ c ∈ candList cfg s, c ≠ none
  · rw [rs_fold _ _ hv]
    simp only [bind, Except.bind, pure, Except.pure, Except.ok.injEq]
    exact ⟨fun h => ⟨hv, h.symm⟩, fun h => h.2.symm⟩
  · have : none ∈ candList cfg s := by
      apply Classical.byContradiction
      intro hn
      exact hv (fun c hc e => hn (e ▸ hc))
    rw [rs_fold_none _ _ this]
    simp [bind, Except.bind, hv]

theorem buildCandidates_none (cfg : SkCfg R S) (s : StroquOOL α R S)
    (h : none ∈ candList cfg s) : buildCandidates cfg s = .error .noneDeref := by
  rw [buildCandidates_eq, rs_fold_none _ _ h]; rfl

theorem candList_length (cfg : SkCfg R S) (s : StroquOOL α R S) :
    (candList cfg s).length = cfg.pmax + 1 := by
  simp [candList]

theorem candList_ne_nil (cfg : SkCfg R S) (s : StroquOOL α R S) : candList cfg s ≠ [] := by
  intro h
  have := candList_length cfg s
  rw [h] at this
  simp at this

/-- the loop of `candFor` from an arbitrary accumulator -/
theorem candFold_mem (P : Part α (SkSt R S)) (p : Nat) : ∀ (l : List Nat) (acc : S × Option Nat)
    (id : Nat),
    (l.foldl (fun (acc : S × Option Nat) id =>
      match P.nodes[id]? with
      | none => acc
      | some nd =>
        if nd.st.visited ≥ 2 ^ p then
          if acc.1 ≤ nd.st.mean then (nd.st.mean, some id) else acc
        else acc) acc).2 = some id →
    acc.2 = some id ∨ (id ∈ l ∧ ∃ nd, P.nodes[id]? = some nd ∧ nd.st.visited ≥ 2 ^ p)
  | [], acc, id, h => Or.inl h
  | x :: l, acc, id, h => by
    rw [List.foldl_cons] at h
    rcases candFold_mem P p l _ id h with h1 | ⟨h1, h2⟩
    · cases hx : P.nodes[x]? with
      | none => left; simpa [hx] using h1
      | some nd =>
        simp only [hx] at h1
        by_cases hv : nd.st.visited ≥ 2 ^ p
        · by_cases hb : acc.1 ≤ nd.st.mean
          · simp only [hv, hb, if_true, Option.some.injEq] at h1
            subst h1
            exact Or.inr ⟨List.mem_cons_self .., nd, hx, hv⟩
          · simp only [hv, hb, if_true, if_false] at h1
            exact Or.inl h1
        · simp only [hv, if_false] at h1
          exact Or.inl h1
    · exact Or.inr ⟨List.mem_cons_of_mem _ h1, h2⟩

/-- a candidate is an evaluated cell (`chosen`) with at least `2^p` evaluations -/
theorem candFor_mem (cfg : SkCfg R S) (s : StroquOOL α R S) {p id : Nat}
    (h : candFor cfg s p = some id) :
    id ∈ s.chosen ∧ ∃ nd, s.P.nodes[id]? = some nd ∧ nd.st.visited ≥ 2 ^ p := by
  rcases candFold_mem s.P p s.chosen (cfg.negInf, none) id h with h1 | h1
  · simp at h1
  · exact h1

theorem candList_mem (cfg : SkCfg R S) (s : StroquOOL α R S) {id : Nat}
    (h : some id ∈ candList cfg s) : id ∈ s.chosen ∧ id < s.P.nodes.length := by
  simp only [candList, List.mem_map, List.mem_range] at h
  obtain ⟨p, _, hp⟩ := h
  obtain ⟨h1, nd, h2, _⟩ := candFor_mem cfg s hp
  exact ⟨h1, lt_length_of_getElem? h2⟩

/-- the selection loop of `buildCandidates` is `pickLast` over the eligible cells -/
theorem candFold_eq (d : S) (P : Part α (SkSt R S)) (p : Nat) : ∀ (l : List Nat) (acc : S × Option Nat),
    l.foldl (fun (acc : S × Option Nat) id =>
      match P.nodes[id]? with
      | none => acc
      | some nd =>
        if nd.st.visited ≥ 2 ^ p then
          if acc.1 ≤ nd.st.mean then (nd.st.mean, some id) else acc
        else acc) acc =
    pickLast (meanAt d P) (l.map (fun id => if eligible P p id then some id else none)) acc
  | [], _ => rfl
  | x :: l, acc => by
    rw [List.foldl_cons, List.map_cons, candFold_eq d P p l]
    cases hx : P.nodes[x]? with
    | none => simp [eligible, hx, pickLast]
    | some nd =>
      by_cases hv : nd.st.visited ≥ 2 ^ p
      · have hm : meanAt d P x = nd.st.mean := by simp [meanAt, hx]
        by_cases hb : acc.1 ≤ nd.st.mean
        · simp [eligible, hx, hv, hb, pickLast, hm]
        · simp [eligible, hx, hv, hb, pickLast, hm]
      · simp [eligible, hx, hv, pickLast]

theorem candFor_eq (cfg : SkCfg R S) (s : StroquOOL α R S) (p : Nat) :
    candFor cfg s p =
      (pickLast (meanAt cfg.negInf s.P) (eligibles s p) (cfg.negInf, none)).2 := by
  exact congrArg Prod.snd (candFold_eq cfg.negInf s.P p s.chosen (cfg.negInf, none))

end model

/-! ### `pickLast` under a linear order -/

section order
variable [LinearOrder S]

theorem pickLast_spec (f : Nat → S) : ∀ (cands : List (Option Nat)) (best : S) (mx : Option Nat),
    (pickLast f cands (best, mx) = (best, mx) ∧ ∀ c, some c ∈ cands → f c < best) ∨
    (∃ l1 l2 v, cands = l1 ++ some v :: l2 ∧ pickLast f cands (best, mx) = (f v, some v) ∧
      best ≤ f v ∧ (∀ c, some c ∈ l1 → f c ≤ f v) ∧ (∀ c, some c ∈ l2 → f c < f v))
  | [], best, mx => Or.inl ⟨rfl, fun _ h => by simp at h⟩
  | none :: rest, best, mx => by
    rcases pickLast_spec f rest best mx with ⟨h1, h2⟩ | ⟨l1, l2, v, h1, h2, h3, h4, h5⟩
    · left
      refine ⟨by simpa [pickLast] using h1, fun c hc => h2 c ?_⟩
      simpa using hc
    · right
      refine ⟨none :: l1, l2, v, by simp [h1], by simpa [pickLast] using h2, h3, fun c hc => h4 c ?_,
        h5⟩
      simpa using hc
  | some x :: rest, best, mx => by
    by_cases hb : best ≤ f x
    · have e : pickLast f (some x :: rest) (best, mx) = pickLast f rest (f x, some x) := by
        simp only [pickLast, hb, if_true]
      rw [e]
      right
      rcases pickLast_spec f rest (f x) (some x) with ⟨h1, h2⟩ | ⟨l1, l2, v, h1, h2, h3, h4, h5⟩
      · exact ⟨[], rest, x, rfl, h1, hb, fun _ h => by simp at h, h2⟩
      · refine ⟨some x :: l1, l2, v, by simp [h1], h2, le_trans hb h3, fun c hc => ?_, h5⟩
        rcases List.mem_cons.1 hc with e | hc
        · obtain rfl : c = x := by simpa using e
          exact h3
        · exact h4 c hc
    · have e : pickLast f (some x :: rest) (best, mx) = pickLast f rest (best, mx) := by
        simp only [pickLast, hb, if_false]
      rw [e]
      have hlt : f x < best := not_le.1 hb
      rcases pickLast_spec f rest best mx with ⟨h1, h2⟩ | ⟨l1, l2, v, h1, h2, h3, h4, h5⟩
      · left
        refine ⟨h1, fun c hc => ?_⟩
        rcases List.mem_cons.1 hc with e | hc
        · obtain rfl : c = x := by simpa using e
          exact hlt
        · exact h2 c hc
      · right
        refine ⟨some x :: l1, l2, v, by simp [h1], h2, h3, fun c hc => ?_, h5⟩
        rcases List.mem_cons.1 hc with e | hc
        · obtain rfl : c = x := by simpa using e
          exact le_of_lt (lt_of_lt_of_le hlt h3)
        · exact h4 c hc

/-- whenever the selection loop started from `none` returns an id, that id is the last maximal
entry -/
theorem pickLast_isLastMax (f : Nat → S) (cands : List (Option Nat)) (b : S) {v : Nat}
    (h : (pickLast f cands (b, none)).2 = some v) : IsLastMax f cands v := by
  rcases pickLast_spec f cands b none with ⟨h1, _⟩ | ⟨l1, l2, w, h1, h2, _, h4, h5⟩
  · rw [h1] at h; simp at h
  · rw [h2] at h
    obtain rfl : w = v := by simpa using h
    exact ⟨l1, l2, h1, h4, h5⟩

/-- from a bottom element the loop over a non-empty list of `some` entries returns an id -/
theorem pickLast_isSome (f : Nat → S) (cands : List (Option Nat)) (b : S) (hb : ∀ x, b ≤ x)
    {c : Nat} (hc : some c ∈ cands) : ∃ v, (pickLast f cands (b, none)).2 = some v := by
  rcases pickLast_spec f cands b none with ⟨_, h2⟩ | ⟨l1, l2, w, h1, h2, _, h4, h5⟩
  · exact absurd (hb (f c)) (not_le.2 (h2 c hc))
  · exact ⟨w, by rw [h2]⟩

theorem IsLastMax.mem {f : Nat → S} {cands : List (Option Nat)} {v : Nat}
    (h : IsLastMax f cands v) : some v ∈ cands := by
  obtain ⟨l1, l2, e, _⟩ := h
  rw [e]; simp

theorem IsLastMax.le {f : Nat → S} {cands : List (Option Nat)} {v : Nat}
    (h : IsLastMax f cands v) {c : Nat} (hc : some c ∈ cands) : f c ≤ f v := by
  obtain ⟨l1, l2, e, h1, h2⟩ := h
  rw [e] at hc
  rcases List.mem_append.1 hc with hc | hc
  · exact h1 c hc
  · rcases List.mem_cons.1 hc with e | hc
    · obtain rfl : c = v := by simpa using e
      exact le_refl _
    · exact le_of_lt (h2 c hc)

theorem IsLastMax.congr {f g : Nat → S} {cands : List (Option Nat)} {v : Nat}
    (h : IsLastMax f cands v) (hfg : ∀ c, some c ∈ cands → f c = g c) : IsLastMax g cands v := by
  obtain ⟨l1, l2, e, h1, h2⟩ := h
  have hv : f v = g v := hfg v (by rw [e]; simp)
  refine ⟨l1, l2, e, fun c hc => ?_, fun c hc => ?_⟩
  · rw [← hv, ← hfg c (by rw [e]; exact List.mem_append_left _ hc)]; exact h1 c hc
  · rw [← hv, ← hfg c (by rw [e]; exact List.mem_append_right _ (List.mem_cons_of_mem _ hc))]
    exact h2 c hc

end order

/-! ### `receive` -/

section recv
variable [LE S] [DecidableLE S] [Inhabited S] [Inhabited R]

theorem receive_ended (s : StroquOOL α R S) (r : R) (h : s.ended = true) : receive s r = s := by
  simp [receive, h]

theorem receive_open (s : StroquOOL α R S) (r : R) (h : s.ended = false) :
    receive s r = { s with P := s.P.modifySt s.curr (fun st =>
      { st with visited := st.visited + 1, rewards := st.rewards ++ [r] }) } := by
  simp [receive, h]

end recv

end SK
end PyXAB
