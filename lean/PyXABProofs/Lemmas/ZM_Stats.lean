/-
  Ghost-history invariants along any run: exact statistics and the phase schedule.
-/
import PyXABProofs.Lemmas.ZM_Inv
import Mathlib.Algebra.Order.Field.Basic
import Mathlib.Tactic.Ring
import Mathlib.Tactic.FieldSimp

set_option linter.unusedSectionVars false

namespace PyXAB
namespace ZM
open Zooming

section generic
variable {α R S : Type} [Add α] [Sub α] [Mul α] [Div α] [OfNat α 2] [NatCast α]
variable [LE α] [DecidableLE α] [LE S] [DecidableLE S]

/-- Induction over runs in terms of the bookkeeping relations. -/
theorem run_induction {cfg : ZoomCfg R S} {k : Kind} {domain : Box α}
    {motive : Zooming α S → List (Nat × R) → Prop}
    (h0 : ∀ s, InitRel cfg s → motive s [])
    (hstep : ∀ s H i r s', motive s H → RoundRel cfg s i r s' → motive s' (H ++ [(i, r)]))
    {s : Zooming α S} {H : List (Nat × R)} (hR : Run cfg k domain s H) : motive s H := by
  induction hR with
  | init h => exact h0 _ (init_inv h)
  | round _ hp hr ih =>
    obtain ⟨rfl, _⟩ := pull_inv hp
    obtain ⟨i', hb, _, hrel⟩ := receive_inv hr
    obtain rfl : _ = i' := Option.some.inj hb
    exact hstep _ _ _ _ _ ih hrel

omit [Add α] [Sub α] [Mul α] [Div α] [OfNat α 2] [NatCast α] [LE α] [DecidableLE α] [LE S]
  [DecidableLE S] in
theorem rewardsOf_snoc (H : List (Nat × R)) (i j : Nat) (r : R) :
    rewardsOf (H ++ [(i, r)]) j = rewardsOf H j ++ (if i = j then [r] else []) := by
  unfold rewardsOf
  by_cases h : i = j <;> simp [List.filter_append, h]

omit [Add α] [Sub α] [Mul α] [Div α] [OfNat α 2] [NatCast α] [LE α] [DecidableLE α] [LE S]
  [DecidableLE S] in
theorem rewardsOf_nil_of_lt (H : List (Nat × R)) (j n : Nat) (hv : ∀ e ∈ H, e.1 < n)
    (hj : n ≤ j) : rewardsOf H j = [] := by
  unfold rewardsOf
  rw [List.map_eq_nil_iff, List.filter_eq_nil_iff]
  intro e he
  have := hv e he
  simp only [beq_iff_eq]
  omega

theorem sum_map_set {β : Type} (f : β → Nat) {l : List β} {i : Nat} {x : β} (y : β)
    (h : l[i]? = some x) : ((l.set i y).map f).sum + f x = (l.map f).sum + f y := by
  obtain ⟨hi, rfl⟩ := List.getElem?_eq_some_iff.1 h
  have e1 : l = l.take i ++ l[i] :: l.drop (i + 1) := by simp
  have e2 : l.set i y = l.take i ++ y :: l.drop (i + 1) := by
    rw [List.set_eq_take_append_cons_drop]; simp [hi]
  rw [e2]
  conv => rhs; rw [e1]
  simp only [List.map_append, List.map_cons, List.sum_append, List.sum_cons]
  omega

omit [Add α] [Sub α] [Mul α] [Div α] [OfNat α 2] [NatCast α] [LE α] [DecidableLE α] [LE S]
  [DecidableLE S] in
theorem stats_init (cfg : ZoomCfg R S) (s : Zooming α S) (h : InitRel cfg s) : Stats cfg s [] := by
  obtain ⟨_, _, h3, _, h5⟩ := h
  refine ⟨h3, by simp, ?_, ?_, fun a ha _ => (h5 a ha).2⟩
  · intro j a ha
    simp [rewardsOf, (h5 a (List.mem_of_getElem? ha)).1]
  · have : ∀ l : List (Arm α S), (∀ a ∈ l, a.pulls = 0) → (l.map (·.pulls)).sum = 0 := by
      intro l
      induction l with
      | nil => simp
      | cons a l ih =>
        intro h
        simp [h a (List.mem_cons_self ..), ih (fun b hb => h b (List.mem_cons_of_mem _ hb))]
    simpa using this s.arms (fun a ha => (h5 a ha).1)

omit [Add α] [Sub α] [Mul α] [Div α] [OfNat α 2] [NatCast α] [LE α] [DecidableLE α] [LE S]
  [DecidableLE S] in
/-- shape of the arm list after a round -/
theorem roundRel_arms {cfg : ZoomCfg R S} {s s' : Zooming α S} {i : Nat} {r : R}
    (h : RoundRel cfg s i r s') :
    ∃ a a', s.arms[i]? = some a ∧ a'.pulls = a.pulls + 1 ∧ a'.avg = cfg.upd a.avg a.pulls r ∧
      s.arms.length ≤ s'.arms.length ∧ s'.arms[i]? = some a' ∧
      (∀ j, j ≠ i → j < s.arms.length → s'.arms[j]? = s.arms[j]?) ∧
      (∀ j b, s.arms.length ≤ j → s'.arms[j]? = some b → b.pulls = 0 ∧ b.avg = cfg.zero) ∧
      (s'.arms.map (·.pulls)).sum = (s.arms.map (·.pulls)).sum + 1 := by
  obtain ⟨a, c, fresh, ha, _, _, _, hA, hf⟩ := h
  have hi := (List.getElem?_eq_some_iff.1 ha).1
  refine ⟨a, { credit cfg a r with cell := c }, ha, rfl, rfl, ?_, ?_, ?_, ?_, ?_⟩
  · rw [hA]; simp
  · rw [hA, List.getElem?_append_left (by simpa using hi), List.getElem?_set_self hi]
  · intro j hji hj
    rw [hA, List.getElem?_append_left (by simpa using hj), List.getElem?_set_ne (Ne.symm hji)]
  · intro j b hj hb
    rw [hA, List.getElem?_append_right (by simpa using hj)] at hb
    exact hf b (List.mem_of_getElem? hb)
  · rw [hA, List.map_append, List.sum_append]
    have h0 : (fresh.map (·.pulls)).sum = 0 := by
      have : ∀ l : List (Arm α S), (∀ a ∈ l, a.pulls = 0) → (l.map (·.pulls)).sum = 0 := by
        intro l
        induction l with
        | nil => simp
        | cons a l ih =>
          intro h
          simp [h a (List.mem_cons_self ..), ih (fun b hb => h b (List.mem_cons_of_mem _ hb))]
      exact this fresh (fun f hf' => (hf f hf').1)
    have := sum_map_set (fun x : Arm α S => x.pulls) { credit cfg a r with cell := c } ha
    simp only [credit] at this ⊢
    omega

omit [Add α] [Sub α] [Mul α] [Div α] [OfNat α 2] [NatCast α] [LE α] [DecidableLE α] [LE S]
  [DecidableLE S] in
theorem stats_step (cfg : ZoomCfg R S) {s s' : Zooming α S} {H : List (Nat × R)} {i : Nat}
    {r : R} (hS : Stats cfg s H) (h : RoundRel cfg s i r s') :
    Stats cfg s' (H ++ [(i, r)]) := by
  obtain ⟨a, a', ha, hp, _, hlen, ha', hold, hnew, hsum⟩ := roundRel_arms h
  have hi := (List.getElem?_eq_some_iff.1 ha).1
  obtain ⟨_, _, _, _, ht, _, _, _, _⟩ := h
  refine ⟨?_, ?_, ?_, ?_, ?_⟩
  · rw [ht, hS.time]; simp
  · intro e he
    rcases List.mem_append.1 he with he | he
    · have := hS.valid e he; omega
    · rw [List.mem_singleton] at he; subst he; show i < _; omega
  · intro j b hb
    rw [rewardsOf_snoc, List.length_append]
    by_cases hj : j < s.arms.length
    · by_cases hji : j = i
      · subst hji
        obtain rfl := Option.some.inj (ha'.symm.trans hb)
        rw [hp, hS.pulls j a ha]; simp
      · rw [hold j hji hj] at hb
        rw [hS.pulls j b hb]; simp [Ne.symm hji]
    · have hne : i ≠ j := by omega
      rw [(hnew j b (by omega) hb).1, rewardsOf_nil_of_lt H j _ hS.valid (by omega)]
      simp [hne]
  · rw [hsum, hS.total]; simp
  · intro b hb hb0
    obtain ⟨j, hj⟩ := List.mem_iff_getElem?.1 hb
    by_cases hjl : j < s.arms.length
    · by_cases hji : j = i
      · subst hji
        obtain rfl := Option.some.inj (ha'.symm.trans hj)
        omega
      · rw [hold j hji hjl] at hj
        exact hS.zero b (List.mem_of_getElem? hj) hb0
    · exact (hnew j b (by omega) hj).2

/-- **stats** along any run. -/
theorem run_stats {cfg : ZoomCfg R S} {k : Kind} {domain : Box α} {s : Zooming α S}
    {H : List (Nat × R)} (hR : Run cfg k domain s H) : Stats cfg s H :=
  run_induction (motive := fun s H => Stats cfg s H) (stats_init cfg)
    (fun _ _ _ _ _ ih h => stats_step cfg ih h) hR

/-! ### phase schedule -/

omit [Add α] [Sub α] [Mul α] [Div α] [OfNat α 2] [NatCast α] [LE α] [DecidableLE α] [LE S]
  [DecidableLE S] in
theorem phase_init (cfg : ZoomCfg R S) (s : Zooming α S) (h : InitRel cfg s) : PhaseInv s := by
  obtain ⟨h1, h2, h3, _⟩ := h
  refine ⟨by omega, ?_, ?_, by omega⟩ <;> simp [h1, h2, h3]

omit [Add α] [Sub α] [Mul α] [Div α] [OfNat α 2] [NatCast α] [LE α] [DecidableLE α] [LE S]
  [DecidableLE S] in
/-- One round: the clock advances by one; the phase advances exactly when the clock reaches
`nextEnd` (and then `nextEnd` grows by `2^(phase+1)`), otherwise both are unchanged. -/
theorem phase_step (s : Zooming α S) (hI : PhaseInv s) :
    (s.time + 1 = s.nextEnd → phaseAfter s = s.phase + 1 ∧
        nextEndAfter s = s.nextEnd + 2 ^ (s.phase + 1)) ∧
    (s.time + 1 ≠ s.nextEnd → phaseAfter s = s.phase ∧ nextEndAfter s = s.nextEnd) ∧
    ∀ s' : Zooming α S, s'.time = s.time + 1 → s'.phase = phaseAfter s →
      s'.nextEnd = nextEndAfter s → PhaseInv s' := by
  obtain ⟨h1, h2, h3, h4⟩ := hI
  unfold phaseAfter nextEndAfter
  refine ⟨fun h => by simp [h], fun h => ?_, ?_⟩
  · have : ¬ s.time + 1 ≥ s.nextEnd := by omega
    simp [this]
  · intro s' e1 e2 e3
    have hp1 : 2 ^ (s.phase + 1) = 2 * 2 ^ s.phase := by rw [Nat.pow_succ]; omega
    have hp2 : 2 ^ (s.phase + 1 + 1) = 2 * 2 ^ (s.phase + 1) := by rw [Nat.pow_succ]; omega
    have hpos : 1 ≤ 2 ^ s.phase := Nat.one_le_two_pow
    by_cases hc : s.time + 1 ≥ s.nextEnd
    · simp only [hc, if_true] at e2 e3
      refine ⟨by omega, ?_, ?_, ?_⟩
      · rw [e3, e2, h2]; omega
      · rw [e2, e1]; omega
      · rw [e1, e3]; omega
    · simp only [hc, if_false] at e2 e3
      refine ⟨by omega, ?_, ?_, ?_⟩
      · rw [e3, e2, h2]
      · rw [e2, e1]; omega
      · rw [e1, e3]; omega

theorem run_phase {cfg : ZoomCfg R S} {k : Kind} {domain : Box α} {s : Zooming α S}
    {H : List (Nat × R)} (hR : Run cfg k domain s H) : PhaseInv s :=
  run_induction (motive := fun s _ => PhaseInv s) (phase_init cfg)
    (fun s _ _ _ s' ih h => by
      obtain ⟨_, _, _, _, e1, e2, e3, _⟩ := h
      exact (phase_step s ih).2.2 s' e1 e2 e3) hR

/-- `Σ_{j=1..p} 2^j = 2^(p+1) - 2` -/
theorem sum_two_pow (p : Nat) : ((List.range' 1 p).map (2 ^ ·)).sum = 2 ^ (p + 1) - 2 := by
  induction p with
  | zero => rfl
  | succ p ih =>
    rw [List.range'_1_concat, List.map_append, List.sum_append, ih]
    have hp1 : 2 ^ (p + 1 + 1) = 2 * 2 ^ (p + 1) := by rw [Nat.pow_succ]; omega
    have hpos : 2 ≤ 2 ^ (p + 1) := by
      have : 1 ≤ 2 ^ p := Nat.one_le_two_pow
      rw [Nat.pow_succ]; omega
    simp only [List.map_cons, List.map_nil, List.sum_cons, List.sum_nil]
    rw [Nat.add_comm 1 p]
    omega

end generic

/-! ### the mean is the mean of the arm's own rewards -/
section mean
variable {α S : Type} [Add α] [Sub α] [Mul α] [Div α] [OfNat α 2] [NatCast α]
variable [LE α] [DecidableLE α] [Field S] [CharZero S] [LE S] [DecidableLE S]

theorem run_mean {cfg : ZoomCfg S S} {k : Kind} {domain : Box α} {s : Zooming α S}
    {H : List (Nat × S)}
    (hupd : ∀ (avg : S) (n : Nat) (r : S), cfg.upd avg n r = (avg * (n : S) + r) / ((n : S) + 1))
    (hR : Run cfg k domain s H) :
    ∀ j a, s.arms[j]? = some a → 0 < a.pulls →
      a.avg = (rewardsOf H j).sum / (a.pulls : S) := by
  have key := run_induction (cfg := cfg) (k := k) (domain := domain)
    (motive := fun s H => Stats cfg s H ∧ ∀ j a, s.arms[j]? = some a → 0 < a.pulls →
      a.avg = (rewardsOf H j).sum / (a.pulls : S))
    (fun s h => ⟨stats_init cfg s h, fun j a ha hp => by
      have := (h.2.2.2.2 a (List.mem_of_getElem? ha)).1; omega⟩)
    (fun s H i r s' ih h => by
      obtain ⟨hS, hM⟩ := ih
      refine ⟨stats_step cfg hS h, ?_⟩
      obtain ⟨a, a', ha, hp, hav, hlen, ha', hold, hnew, _⟩ := roundRel_arms h
      intro j b hb hb0
      rw [rewardsOf_snoc]
      by_cases hj : j < s.arms.length
      · by_cases hji : j = i
        · subst hji
          obtain rfl := Option.some.inj (ha'.symm.trans hb)
          rw [hav, hp, hupd]
          simp only [if_true, List.sum_append, List.sum_cons, List.sum_nil, add_zero,
            Nat.cast_add, Nat.cast_one]
          by_cases h0 : a.pulls = 0
          · have hl := hS.pulls j a ha
            rw [h0] at hl
            have : rewardsOf H j = [] := List.eq_nil_of_length_eq_zero hl.symm
            simp [h0, this]
          · have hne : (a.pulls : S) ≠ 0 := Nat.cast_ne_zero.2 h0
            rw [hM j a ha (by omega), div_mul_cancel₀ _ hne]
        · rw [hold j hji hj] at hb
          rw [hM j b hb hb0]
          simp [Ne.symm hji]
      · have := (hnew j b (by omega) hb).1
        omega) hR
  exact key.2

end mean
end ZM
end PyXAB
