/-
  C16.3 for SOO and SequOOL: `pull` / `receive` commute with mapping the boxes of the tree.
-/
import PyXABProofs.Lemmas.RL_Tree
import PyXABProofs.Lemmas.RL_Machine

namespace PyXAB
namespace RL
open Rel
set_option linter.unusedSectionVars false

section soo
variable {α S : Type} [Add α] [Sub α] [Mul α] [Div α] [OfNat α 2] [NatCast α]
variable [LE S] [DecidableLE S] [Inhabited S]

theorem soo_scan_map (g : Box α → Box α) (P : Part α (SwSt S)) :
    ∀ (l : List Nat) (maxv : S) (maxn : Option Nat),
      SOO.scan (partMapBox g P) l maxv maxn = SOO.scan P l maxv maxn
  | [], _, _ => rfl
  | id :: rest, maxv, maxn => by
    simp only [SOO.scan, partMapBox_getElem?]
    cases P.nodes[id]? with
    | none => exact soo_scan_map g P rest maxv maxn
    | some nd =>
      simp only [Option.map_some, nodeMapBox_children, nodeMapBox_st, soo_scan_map g P rest]

variable {g : Box α → Box α} {gd : Draw α → Draw α}

/-- map a result `(tree, remaining draws, x)` -/
def mapRes3 {X : Type} (g : Box α → Box α) (gd : Draw α → Draw α) :
    Except Err (Part α (SwSt S) × List (Draw α) × X) → Except Err (Part α (SwSt S) × List (Draw α) × X) :=
  mapRes (partMapBox g) (fun r => (r.1.map gd, r.2))

theorem soo_sweep_map (hg : BoxEquivariant g gd) (negInf : S) (hmax : Nat) :
    ∀ (fuel h : Nat) (vmax : S) (P : Part α (SwSt S)) (ds : List (Draw α)),
      SOO.sweep negInf hmax fuel h vmax (partMapBox g P) (ds.map gd) =
        mapRes3 g gd (SOO.sweep negInf hmax fuel h vmax P ds)
  | 0, _, _, _, _ => rfl
  | fuel + 1, h, vmax, P, ds => by
    simp only [SOO.sweep, partMapBox_depth', partMapBox_layers, soo_scan_map]
    generalize decide (h ≥ P.depth) = nl
    by_cases hh : h ≤ min P.depth hmax
    · simp only [hh, if_true]
      cases P.layers[h]? with
      | none => rfl
      | some layer =>
        simp only []
        cases SOO.scan P layer negInf none with
        | found id => simp only [partMapBox_modifySt]; rfl
        | best maxv maxn =>
          simp only []
          by_cases hv : vmax ≤ maxv
          · simp only [hv, if_true]
            cases maxn with
            | none => exact soo_sweep_map hg negInf hmax fuel (h + 1) vmax P ds
            | some m =>
              simp only [bind, Except.bind, makeChildrenD_map hg]
              cases Part.makeChildrenD P (SOO.st0 negInf) m nl ds with
              | error e => rfl
              | ok x =>
                obtain ⟨P', ds'⟩ := x
                exact soo_sweep_map hg negInf hmax fuel (h + 1) maxv P' ds'
          · simp only [hv, if_false]
            exact soo_sweep_map hg negInf hmax fuel (h + 1) vmax P ds
    · simp only [hh, if_false]; rfl

theorem soo_sweeps_map (hg : BoxEquivariant g gd) (negInf : S) (hmax : Nat) :
    ∀ (fuel : Nat) (P : Part α (SwSt S)) (ds : List (Draw α)),
      SOO.sweeps negInf hmax fuel (partMapBox g P) (ds.map gd) =
        mapRes3 g gd (SOO.sweeps negInf hmax fuel P ds)
  | 0, _, _ => rfl
  | fuel + 1, P, ds => by
    simp only [SOO.sweeps, bind, Except.bind, partMapBox_depth, soo_sweep_map hg]
    cases SOO.sweep negInf hmax (P.depth + 3) 0 negInf P ds with
    | error e => rfl
    | ok x =>
      obtain ⟨P', ds', r⟩ := x
      cases r with
      | some id => rfl
      | none => exact soo_sweeps_map hg negInf hmax fuel P' ds'

theorem soo_pull_map (hg : BoxEquivariant g gd) (negInf : S) (s : SOO α S) (time : Nat)
    (ds : List (Draw α)) :
    SOO.pull negInf (sooMapBox g s) time (ds.map gd) =
      mapRes (sooMapBox g) (fun r => (r.1.map gd, r.2)) (SOO.pull negInf s time ds) := by
  unfold SOO.pull
  simp only [sooMapBox, bind, Except.bind, partMapBox_length, soo_sweeps_map hg]
  cases SOO.sweeps negInf s.hmax (s.P.nodes.length + 3) s.P ds with
  | error e => rfl
  | ok x => rfl

theorem soo_receive_map (g : Box α → Box α) (s : SOO α S) (r : S) :
    SOO.receive (sooMapBox g s) r = mapRes1 (sooMapBox g) (SOO.receive s r) := by
  unfold SOO.receive
  simp only [sooMapBox]
  cases s.curr with
  | none => rfl
  | some c => simp only [partMapBox_modifySt]; rfl

theorem soo_init_map (g : Box α → Box α) (negInf : S) (k : Kind) (domain : Box α) (hmax : Nat) :
    SOO.init negInf k (g domain) hmax = sooMapBox g (SOO.init negInf k domain hmax) := rfl

theorem soo_round_map (hg : BoxEquivariant g gd) (negInf : S) (s : SOO α S) (x : TIn α S) :
    sooRound negInf (sooMapBox g s) (x.1, x.2.1.map gd, x.2.2) =
      mapRes (sooMapBox g) id (sooRound negInf s x) := by
  obtain ⟨t, ds, r⟩ := x
  unfold sooRound
  simp only [soo_pull_map hg]
  cases SOO.pull negInf s t ds with
  | error e => rfl
  | ok y =>
    obtain ⟨s1, ds1, v⟩ := y
    simp only [mapRes, soo_receive_map]
    cases SOO.receive s1 r with
    | error e => rfl
    | ok s2 => rfl

end soo

/-! ## SequOOL -/
section seq
variable {α S : Type} [Add α] [Sub α] [Mul α] [Div α] [OfNat α 2] [NatCast α]
variable [LE S] [DecidableLE S] [Inhabited S]

theorem seq_scan_map (g : Box α → Box α) (P : Part α (SqSt S)) :
    ∀ (l : List Nat) (num : Nat) (maxv : S) (maxn : Option Nat),
      SequOOL.scan (partMapBox g P) l num maxv maxn = SequOOL.scan P l num maxv maxn
  | [], _, _, _ => rfl
  | id :: rest, num, maxv, maxn => by
    simp only [SequOOL.scan, partMapBox_getElem?]
    cases P.nodes[id]? with
    | none => exact seq_scan_map g P rest num maxv maxn
    | some nd =>
      simp only [Option.map_some, nodeMapBox_st, seq_scan_map g P rest]

variable {g : Box α → Box α} {gd : Draw α → Draw α}

theorem seq_receive_map (g : Box α → Box α) (s : SequOOL α S) (r : S) :
    SequOOL.receive (seqMapBox g s) r = mapRes1 (seqMapBox g) (SequOOL.receive s r) := by
  unfold SequOOL.receive
  simp only [seqMapBox]
  cases s.curr with
  | none => rfl
  | some c => simp only [partMapBox_modifySt]; rfl

theorem seq_init_map (g : Box α → Box α) (k : Kind) (domain : Box α) (hmax : Nat) :
    SequOOL.init (S := S) k (g domain) hmax = seqMapBox g (SequOOL.init k domain hmax) := rfl

theorem seq_pull_map (hg : BoxEquivariant g gd) (negInf : S) (s : SequOOL α S) (t : Nat)
    (ds : List (Draw α)) :
    SequOOL.pull negInf (seqMapBox g s) t (ds.map gd) =
      mapRes (seqMapBox g) (fun r => (r.1.map gd, r.2)) (SequOOL.pull negInf s t ds) := by
  obtain ⟨P, it, hmax, cd, loc, budget, chosen, curr⟩ := s
  symm
  unfold SequOOL.pull
  simp only [seqMapBox, partMapBox_layers, partMapBox_depth', seq_scan_map, partMapBox_getElem?,
    bind, Except.bind, makeChildrenD_map hg, ite_mapRes]
  repeat' (split <;> try simp only [*, Option.map_none, Option.map_some, mapRes_ok', mapRes_error,
    nodeMapBox_children', partMapBox_getElem?, partMapBox_modifySt])
  all_goals rfl

theorem seq_round_map (hg : BoxEquivariant g gd) (negInf : S) (s : SequOOL α S) (x : TIn α S) :
    seqRound negInf (seqMapBox g s) (x.1, x.2.1.map gd, x.2.2) =
      mapRes (seqMapBox g) id (seqRound negInf s x) := by
  obtain ⟨t, ds, r⟩ := x
  unfold seqRound
  simp only [seq_pull_map hg]
  cases SequOOL.pull negInf s t ds with
  | error e => rfl
  | ok y =>
    obtain ⟨s1, ds1, v⟩ := y
    simp only [mapRes, seq_receive_map]
    cases SequOOL.receive s1 r with
    | error e => rfl
    | ok s2 => rfl

end seq

end RL
end PyXAB
