/-
  SOO: the layer scan, one sweep, the sweeps of a `pull`.
-/
import PyXABProofs.Lemmas.SW_Vis
import PyXABProofs.Lemmas.SW_Erase

set_option linter.unusedSectionVars false

namespace PyXAB
namespace SOO
open Tree TBA SW

variable {α S : Type} [Add α] [Sub α] [Mul α] [Div α] [OfNat α 2] [NatCast α]
variable [LinearOrder S] [Inhabited S]

/-! ### The scan of one layer -/

/-- `SOO.scan` returns the first unevaluated leaf of the list if there is one, and otherwise the
running last maximum of the stored rewards of the leaves. -/
theorem scan_eq (P : Part α (SwSt S)) : ∀ (l : List Nat) (maxv : S) (maxn : Option Nat),
    scan P l maxv maxn =
      match l.find? (unvisitedLeaf P) with
      | some id => .found id
      | none => .best (amFold (leafScore P (·.reward)) l (maxv, maxn)).1
          (amFold (leafScore P (·.reward)) l (maxv, maxn)).2
  | [], _, _ => rfl
  | id :: rest, maxv, maxn => by
    unfold scan
    cases hn : P.nodes[id]? with
    | none =>
      have h1 : unvisitedLeaf P id = false := by simp [unvisitedLeaf, leafTest, hn]
      have h2 : leafScore P (·.reward) id = none := by simp [leafScore, hn]
      simp only [List.find?_cons, h1, amFold_cons, amStep, h2]
      exact scan_eq P rest maxv maxn
    | some nd =>
      simp only
      by_cases hl : nd.children.isNone = true
      · by_cases hv : nd.st.visited = true
        · have h1 : unvisitedLeaf P id = false := by simp [unvisitedLeaf, leafTest, hn, hv]
          have h2 : leafScore P (·.reward) id = some nd.st.reward := by simp [leafScore, hn, hl]
          simp only [hl, hv, if_true, List.find?_cons, h1, amFold_cons, amStep, h2,
            Bool.not_true, Bool.false_eq_true, if_false]
          by_cases hc : maxv ≤ nd.st.reward
          · simp only [hc, if_true]; exact scan_eq P rest _ _
          · simp only [hc, if_false]; exact scan_eq P rest _ _
        · have hv' : nd.st.visited = false := by simpa using hv
          have h1 : unvisitedLeaf P id = true := by simp [unvisitedLeaf, leafTest, hn, hl, hv']
          simp [hl, hv', h1]
      · have h1 : unvisitedLeaf P id = false := by simp [unvisitedLeaf, leafTest, hn, hl]
        have h2 : leafScore P (·.reward) id = none := by simp [leafScore, hn, hl]
        simp only [hl, List.find?_cons, h1, amFold_cons, amStep, h2]
        exact scan_eq P rest maxv maxn

/-! ### One sweep -/

/-- What a successful sweep started at layer `h` with threshold `vmax` guarantees
(`Pb` = the tree at the end of the sweep, before the handed-out cell is marked). -/
structure SweepPost (negInf : S) (hmax h : Nat) (vmax : S) (P : Part α (SwSt S))
    (ds : List (Draw α)) (P' : Part α (SwSt S)) (ds' : List (Draw α)) (r : Option Nat)
    (tr : List (Ev α (SwSt S) S)) (Pb : Part α (SwSt S)) : Prop where
  ext : Ext (· = ·) (st0 negInf) P Pb
  pinv : PInv negInf Pb
  len : tr.length ≤ ds.length
  drop : ds' = ds.drop tr.length
  evs : ∀ ev ∈ tr, EvOK negInf hmax ev ∧ h ≤ ev.h ∧ vmax ≤ ev.score ∧
    Ext (· = ·) (st0 negInf) P ev.before
  mono : TraceMono tr
  fin : SweepEnd hmax h Pb P' r

theorem SweepEnd.weaken {hmax h : Nat} {Pb P' : Part α (SwSt S)} {r : Option Nat}
    (hE : SweepEnd hmax (h + 1) Pb P' r) : SweepEnd hmax h Pb P' r := by
  cases r with
  | none => exact hE
  | some v =>
    obtain ⟨h1, hv, l, h2, h3⟩ := hE
    exact ⟨h1, hv, l, by omega, h3⟩

theorem SweepPost.weaken {negInf : S} {hmax h : Nat} {vmax : S} {P P' Pb : Part α (SwSt S)}
    {ds ds' : List (Draw α)} {r : Option Nat} {tr : List (Ev α (SwSt S) S)}
    (hp : SweepPost negInf hmax (h + 1) vmax P ds P' ds' r tr Pb) :
    SweepPost negInf hmax h vmax P ds P' ds' r tr Pb :=
  ⟨hp.ext, hp.pinv, hp.len, hp.drop,
    fun ev hev => by
      obtain ⟨a, b, c⟩ := hp.evs ev hev
      exact ⟨a, by omega, c⟩,
    hp.mono, hp.fin.weaken⟩

theorem ext_refl (s0 : SwSt S) (P : Part α (SwSt S)) : Ext (· = ·) s0 P P :=
  Ext.refl (fun _ => rfl) P

theorem ext_trans {s0 : SwSt S} {P P' P'' : Part α (SwSt S)} (h1 : Ext (· = ·) s0 P P')
    (h2 : Ext (· = ·) s0 P' P'') : Ext (· = ·) s0 P P'' :=
  Ext.trans (fun _ _ _ h1 h2 => h1.trans h2) h1 h2

theorem sweepT_spec (negInf : S) (hbot : ∀ x, negInf ≤ x) (hmax : Nat) :
    ∀ (fuel h : Nat) (vmax : S) (P : Part α (SwSt S)) (ds : List (Draw α))
      (P' : Part α (SwSt S)) (ds' : List (Draw α)) (r : Option Nat)
      (tr : List (Ev α (SwSt S) S)),
      PInv negInf P → (∀ d ∈ ds, DrawOKLen P.kind (dimn P) d) → LowVisited P h →
      sweepT negInf hmax fuel h vmax P ds = .ok (P', ds', r, tr) →
      ∃ Pb, SweepPost negInf hmax h vmax P ds P' ds' r tr Pb
  | 0, _, _, _, _, _, _, _, _, _, _, _, hrun => by simp [sweepT] at hrun
  | fuel + 1, h, vmax, P, ds, P', ds', r, tr, hI, hds, hlow, hrun => by
    unfold sweepT at hrun
    split at hrun
    case isFalse hh =>
      simp only [Except.ok.injEq, Prod.mk.injEq] at hrun
      obtain ⟨rfl, rfl, rfl, rfl⟩ := hrun
      exact ⟨P, ext_refl _ P, hI, Nat.zero_le _, rfl, by simp, List.Pairwise.nil,
        rfl, hlow.mono (by omega)⟩
    case isTrue hh =>
      cases hlay : P.layers[h]? with
      | none => simp [hlay] at hrun
      | some layer =>
        simp only [hlay, scan_eq] at hrun
        cases hf : layer.find? (unvisitedLeaf P) with
        | some id =>
          simp only [hf, Except.ok.injEq, Prod.mk.injEq] at hrun
          obtain ⟨rfl, rfl, rfl, rfl⟩ := hrun
          exact ⟨P, ext_refl _ P, hI, Nat.zero_le _, rfl, by simp, List.Pairwise.nil,
            rfl, h, layer, Nat.le_refl _, hh, hlay, hf, hlow⟩
        | none =>
          simp only [hf] at hrun
          have hall : ∀ w ∈ layer, unvisitedLeaf P w = false := by
            intro w hw
            have := List.find?_eq_none.1 hf w hw
            simpa using this
          have hlow' : LowVisited P (h + 1) := hlow.succ hlay hall
          -- the continuation without expansion
          have hskip : sweepT negInf hmax fuel (h + 1) vmax P ds = .ok (P', ds', r, tr) →
              ∃ Pb, SweepPost negInf hmax h vmax P ds P' ds' r tr Pb := by
            intro hrun'
            obtain ⟨Pb, hp⟩ := sweepT_spec negInf hbot hmax fuel (h + 1) vmax P ds P' ds' r tr
              hI hds hlow' hrun'
            exact ⟨Pb, hp.weaken⟩
          split at hrun
          case isFalse hc => exact hskip hrun
          case isTrue hc =>
            rcases amFold_bot (leafScore P (·.reward)) layer negInf hbot with
              ⟨e1, _⟩ | ⟨m, x, e1, hmax'⟩
            · rw [e1] at hrun
              exact hskip hrun
            · rw [e1] at hrun hc
              simp only at hrun hc
              -- the expanded cell
              obtain ⟨nd, hm, hleaf, hx⟩ := leafScore_eq_some_iff.1 hmax'.score
              have hvis : nd.st.visited = true :=
                unvisitedLeaf_eq_false_iff.1 (hall m hmax'.mem) nd hm hleaf
              obtain ⟨nd2, hm2, hdep⟩ := WF_node_of_mem_layer hI.wf hlay hmax'.mem
              obtain rfl := getElem?_inj hm hm2
              cases hmk : P.makeChildrenD (st0 negInf) m (decide (h ≥ P.depth)) ds with
              | error e => simp [hmk] at hrun
              | ok res =>
                obtain ⟨P1, ds1⟩ := res
                simp only [hmk] at hrun
                cases hrec : sweepT negInf hmax fuel (h + 1) x P1 ds1 with
                | error e => simp [hrec] at hrun
                | ok res =>
                  obtain ⟨P2, ds2, r2, tr2⟩ := res
                  simp only [hrec, Except.ok.injEq, Prod.mk.injEq] at hrun
                  obtain ⟨rfl, rfl, rfl, rfl⟩ := hrun
                  obtain ⟨⟨d, rfl⟩, St, W1, hK⟩ := expand_ok hI.wf hm hleaf
                    (by rw [hdep]) hds hmk
                  have hE1 : Ext (· = ·) (st0 negInf) P P1 :=
                    Ext.of_step (fun _ => rfl) St hI.wf hm hleaf
                  have hI1 : PInv negInf P1 :=
                    hI.step St hm hleaf hvis (fun _ => rfl) hK
                  have hds1 : ∀ d' ∈ ds1, DrawOKLen P1.kind (dimn P1) d' := by
                    intro d' hd'
                    rw [hE1.kind, hE1.dimn]
                    exact hds d' (List.mem_cons_of_mem _ hd')
                  have hlow1 : LowVisited P1 (h + 1) := by
                    have := LowVisited.step (by rw [hdep]; exact hlow') St hI.wf hm
                    rwa [hdep] at this
                  obtain ⟨Pb, hp⟩ := sweepT_spec negInf hbot hmax fuel (h + 1) x P1 ds1 P2 ds2
                    r2 tr2 hI1 hds1 hlow1 hrec
                  refine ⟨Pb, ext_trans hE1 hp.ext, hp.pinv, ?_, ?_, ?_, ?_, hp.fin.weaken⟩
                  · simp only [List.length_cons]; have := hp.len; omega
                  · simp only [List.length_cons, List.drop_succ_cons]; exact hp.drop
                  · intro ev hev
                    rcases List.mem_cons.1 hev with rfl | hev
                    · exact ⟨⟨hI, hh, ⟨layer, hlay, hmax'⟩, ⟨nd, hm, hleaf, hvis, hx, hdep⟩,
                        hlow'⟩, Nat.le_refl _, hc, ext_refl _ P⟩
                    · obtain ⟨a, b, c, e⟩ := hp.evs ev hev
                      exact ⟨a, by omega, le_trans hc c, ext_trans hE1 e⟩
                  · refine List.Pairwise.cons ?_ hp.mono
                    intro ev hev
                    obtain ⟨_, b, c, _⟩ := hp.evs ev hev
                    exact ⟨by simp only; omega, c⟩

/-! ### The sweeps of one `pull` -/

/-- What a successful `pull` guarantees (`Pb` = the tree before the handed-out cell `v` is
marked, `trs` = the expansion events, one list per sweep). -/
structure PullPost (negInf : S) (hmax : Nat) (P : Part α (SwSt S))
    (ds : List (Draw α)) (P' : Part α (SwSt S)) (ds' : List (Draw α)) (v : Nat)
    (trs : List (List (Ev α (SwSt S) S))) (Pb : Part α (SwSt S)) : Prop where
  ext : Ext (· = ·) (st0 negInf) P Pb
  pinv : PInv negInf Pb
  len : trs.flatten.length ≤ ds.length
  drop : ds' = ds.drop trs.flatten.length
  evs : ∀ tr ∈ trs, TraceMono tr ∧
    ∀ ev ∈ tr, EvOK negInf hmax ev ∧ Ext (· = ·) (st0 negInf) P ev.before
  marked : P' = mark Pb v
  first : firstUnvisited Pb = some v
  node : ∃ nd, Pb.nodes[v]? = some nd ∧ nd.children = none ∧ nd.st.visited = false ∧
    nd.depth ≤ hmax

theorem sweepsT_spec (negInf : S) (hbot : ∀ x, negInf ≤ x) (hmax : Nat) :
    ∀ (fuel : Nat) (P : Part α (SwSt S)) (ds : List (Draw α))
      (P' : Part α (SwSt S)) (ds' : List (Draw α)) (v : Nat)
      (trs : List (List (Ev α (SwSt S) S))),
      PInv negInf P → (∀ d ∈ ds, DrawOKLen P.kind (dimn P) d) →
      sweepsT negInf hmax fuel P ds = .ok (P', ds', v, trs) →
      ∃ Pb, PullPost negInf hmax P ds P' ds' v trs Pb
  | 0, _, _, _, _, _, _, _, _, hrun => by simp [sweepsT] at hrun
  | fuel + 1, P, ds, P', ds', v, trs, hI, hds, hrun => by
    unfold sweepsT at hrun
    cases hsw : sweepT negInf hmax (P.depth + 3) 0 negInf P ds with
    | error e => simp [hsw] at hrun
    | ok res =>
      obtain ⟨P1, ds1, r, tr⟩ := res
      obtain ⟨Pb, hp⟩ := sweepT_spec negInf hbot hmax _ 0 negInf P ds P1 ds1 r tr hI hds
        (LowVisited.zero P) hsw
      cases r with
      | some id =>
        simp only [hsw, Except.ok.injEq, Prod.mk.injEq] at hrun
        obtain ⟨rfl, rfl, rfl, rfl⟩ := hrun
        obtain ⟨hmk, hv, l, _, h2, h3, h4, h5⟩ := hp.fin
        have hun : unvisitedLeaf Pb id = true := List.find?_some h4
        obtain ⟨nd, n1, n2, n3⟩ := unvisitedLeaf_eq_true_iff.1 hun
        obtain ⟨nd', n1', n4⟩ := WF_node_of_mem_layer hp.pinv.wf h3 (List.mem_of_find?_eq_some h4)
        obtain rfl := getElem?_inj n1 n1'
        refine ⟨Pb, hp.ext, hp.pinv, by simpa using hp.len, by simpa using hp.drop, ?_, hmk,
          firstUnvisited_of_layer h5 h3 h4, nd, n1, n2, n3, by omega⟩
        intro tr' htr'
        obtain rfl : tr' = tr := by simpa using htr'
        exact ⟨hp.mono, fun ev hev => ⟨(hp.evs ev hev).1, (hp.evs ev hev).2.2.2⟩⟩
      | none =>
        simp only [hsw] at hrun
        obtain ⟨rfl, _⟩ := hp.fin
        cases hrec : sweepsT negInf hmax fuel P1 ds1 with
        | error e => simp [hrec] at hrun
        | ok res =>
          obtain ⟨P2, ds2, id, trs2⟩ := res
          simp only [hrec, Except.ok.injEq, Prod.mk.injEq] at hrun
          obtain ⟨rfl, rfl, rfl, rfl⟩ := hrun
          have hds1 : ∀ d' ∈ ds1, DrawOKLen P1.kind (dimn P1) d' := by
            intro d' hd'
            rw [hp.ext.kind, hp.ext.dimn]
            rw [hp.drop] at hd'
            exact hds d' (List.mem_of_mem_drop hd')
          obtain ⟨Pb, hq⟩ := sweepsT_spec negInf hbot hmax fuel P1 ds1 P2 ds2 id trs2 hp.pinv
            hds1 hrec
          have hl1 := hp.len
          have hl2 := hq.len
          have hd1 := hp.drop
          refine ⟨Pb, ext_trans hp.ext hq.ext, hq.pinv, ?_, ?_, ?_, hq.marked, hq.first, hq.node⟩
          · rw [hd1, List.length_drop] at hl2
            simp only [List.flatten_cons, List.length_append]; omega
          · rw [hq.drop, hd1, List.drop_drop]
            simp only [List.flatten_cons, List.length_append]
          · intro tr' htr'
            rcases List.mem_cons.1 htr' with rfl | htr'
            · exact ⟨hp.mono, fun ev hev => ⟨(hp.evs ev hev).1, (hp.evs ev hev).2.2.2⟩⟩
            · obtain ⟨a, b⟩ := hq.evs tr' htr'
              exact ⟨a, fun ev hev => ⟨(b ev hev).1, ext_trans hp.ext (b ev hev).2⟩⟩

theorem mark_node_self {P : Part α (SwSt S)} {v : Nat} {nd : Node α (SwSt S)}
    (h : P.nodes[v]? = some nd) :
    (mark P v).nodes[v]? = some { nd with st := { nd.st with visited := true } } := by
  simp [mark, getElem?_modifySt, h]

theorem pullT_spec (negInf : S) (hbot : ∀ x, negInf ≤ x) {s s' : SOO α S} {time : Nat}
    {ds ds' : List (Draw α)} {v : Nat} {trs : List (List (Ev α (SwSt S) S))}
    (hI : Inv negInf s) (hds : ∀ d ∈ ds, DrawOKLen s.P.kind (dimn s.P) d)
    (hrun : pullT negInf s time ds = .ok (s', ds', v, trs)) :
    (∃ Pb, PullPost negInf s.hmax s.P ds s'.P ds' v trs Pb) ∧ Inv negInf s' ∧
      s'.curr = some v ∧ s'.hmax = s.hmax ∧ s'.iteration = time := by
  unfold pullT at hrun
  cases hsw : sweepsT negInf s.hmax (s.P.nodes.length + 3) s.P ds with
  | error e => simp [hsw] at hrun
  | ok res =>
    obtain ⟨P1, ds1, id, trs1⟩ := res
    simp only [hsw, Except.ok.injEq, Prod.mk.injEq] at hrun
    obtain ⟨rfl, rfl, rfl, rfl⟩ := hrun
    obtain ⟨Pb, hp⟩ := sweepsT_spec negInf hbot s.hmax _ s.P ds P1 ds1 id trs1 hI.pinv hds hsw
    refine ⟨⟨Pb, hp⟩, ⟨?_, ?_⟩, rfl, rfl, rfl⟩
    · show PInv negInf P1
      rw [hp.marked]; exact hp.pinv.mark id
    · intro c hc
      obtain rfl : id = c := by simpa using hc
      obtain ⟨nd, n1, _⟩ := hp.node
      show ∃ nd, P1.nodes[id]? = some nd ∧ nd.st.visited = true
      rw [hp.marked]
      exact ⟨_, mark_node_self n1, rfl⟩

/-! ### Totality -/

theorem sweepT_found (negInf : S) (hmax : Nat) (fuel h : Nat) (vmax : S) (P : Part α (SwSt S))
    (ds : List (Draw α)) {l : List Nat} {v : Nat} (hh : h ≤ min P.depth hmax)
    (hl : P.layers[h]? = some l) (hf : l.find? (unvisitedLeaf P) = some v) :
    sweepT negInf hmax (fuel + 1) h vmax P ds = .ok (mark P v, ds, some v, []) := by
  unfold sweepT
  simp only [hh, if_true, hl, scan_eq, hf]

theorem sweepT_total (negInf : S) (hbot : ∀ x, negInf ≤ x) (hmax : Nat) :
    ∀ (fuel h : Nat) (P : Part α (SwSt S)) (d : Draw α) (ds : List (Draw α)),
      PInv negInf P → P.depth < hmax → h ≤ P.depth → P.depth - h + 2 ≤ fuel →
      DrawOKLen P.kind (dimn P) d →
      ∃ P' ds' v tr, sweepT negInf hmax fuel h negInf P (d :: ds) = .ok (P', ds', some v, tr) ∧
        P'.depth ≤ P.depth + 1
  | 0, _, _, _, _, _, _, _, hf, _ => by omega
  | fuel + 1, h, P, d, ds, hI, hcap, hh, hf, hd => by
    obtain ⟨layer, hlay⟩ := WF_layer_exists hI.wf hh
    cases hfind : layer.find? (unvisitedLeaf P) with
    | some v =>
      exact ⟨_, _, v, _, sweepT_found negInf hmax fuel h negInf P _ (by omega) hlay hfind,
        Nat.le_succ _⟩
    | none =>
      unfold sweepT
      have hh' : h ≤ min P.depth hmax := by omega
      simp only [hh', if_true, hlay, scan_eq, hfind]
      rcases amFold_bot (leafScore P (·.reward)) layer negInf hbot with
        ⟨e1, e2⟩ | ⟨m, x, e1, hmax'⟩
      · rw [e1]
        simp only [hbot, if_true]
        have hlt : h < P.depth := by
          rcases Nat.lt_or_ge h P.depth with h1 | h1
          · exact h1
          · exfalso
            obtain rfl : h = P.depth := by omega
            obtain ⟨l, w, nd, a1, a2, a3, a4, _⟩ := WF_deepest_leaf hI.wf
            rw [hlay] at a1; cases a1
            exact leafScore_eq_none_iff.1 (e2 w a2) nd a3 a4
        exact sweepT_total negInf hbot hmax fuel (h + 1) P d ds hI hcap (by omega) (by omega) hd
      · rw [e1]
        simp only [hbot, if_true]
        obtain ⟨nd, hm, hleaf, hx⟩ := leafScore_eq_some_iff.1 hmax'.score
        obtain ⟨nd2, hm2, hdep⟩ := WF_node_of_mem_layer hI.wf hlay hmax'.mem
        obtain rfl := getElem?_inj hm hm2
        obtain ⟨P1, hmk, St, W1, hK⟩ := expand_total hI.wf (st0 negInf) ds hm hleaf
          (fl := decide (h ≥ P.depth)) (by rw [hdep]) hd
        simp only [hmk]
        obtain ⟨l1, hl1, hmem, _⟩ := Step_new_layer St hI.wf hK
        rw [hdep] at hl1
        have hd1 : P1.depth ≤ P.depth + 1 := by
          rcases St.layers with ⟨_, _, e⟩ | ⟨_, _, e⟩ <;> omega
        have hd2 : h + 1 ≤ P1.depth := by
          have := lt_length_of_getElem? hl1
          rw [W1.layers_len] at this; omega
        obtain ⟨cn, c1, _, _, _, c5, _, c7⟩ := St.new 0 (by omega)
        have hun : unvisitedLeaf P1 P.nodes.length = true := by
          rw [unvisitedLeaf_eq_true_iff]
          exact ⟨cn, by simpa using c1, c5, by rw [c7]; rfl⟩
        have hsome : (l1.find? (unvisitedLeaf P1)).isSome = true := by
          rw [List.find?_isSome]; exact ⟨_, hmem, hun⟩
        obtain ⟨v, hv⟩ := Option.isSome_iff_exists.1 hsome
        obtain ⟨fuel', rfl⟩ : ∃ f, fuel = f + 1 := ⟨fuel - 1, by omega⟩
        rw [sweepT_found negInf hmax fuel' (h + 1) x P1 ds (by omega) hl1 hv]
        exact ⟨_, _, v, _, rfl, hd1⟩

theorem pullT_total (negInf : S) (hbot : ∀ x, negInf ≤ x) {s : SOO α S} (time : Nat)
    {ds : List (Draw α)} (hI : Inv negInf s) (hcap : s.P.depth < s.hmax)
    (hlen : 1 ≤ ds.length) (hds : ∀ d ∈ ds, DrawOKLen s.P.kind (dimn s.P) d) :
    ∃ s' ds' v trs, pullT negInf s time ds = .ok (s', ds', v, trs) ∧
      s'.P.depth ≤ s.P.depth + 1 := by
  cases ds with
  | nil => simp at hlen
  | cons d ds =>
    obtain ⟨P', ds', v, tr, e, hd⟩ := sweepT_total negInf hbot s.hmax (s.P.depth + 3) 0 s.P d ds
      hI.pinv hcap (Nat.zero_le _) (by omega) (hds d (List.mem_cons_self ..))
    refine ⟨{ s with P := P', iteration := time, curr := some v }, ds', v, [tr], ?_, hd⟩
    unfold pullT sweepsT
    simp only [e]

end SOO
end PyXAB
