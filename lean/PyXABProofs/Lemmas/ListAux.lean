/-
  Generic list lemmas used by the geometry proofs (nothing PyXAB specific).
-/
import Mathlib.Data.List.Forall2

namespace PyXAB.ListAux
open List

variable {β γ : Type}

/-- index characterisation of `Forall₂` in `getElem` form -/
theorem forall₂_iff_getElem {R : β → γ → Prop} {l₁ : List β} {l₂ : List γ} :
    Forall₂ R l₁ l₂ ↔
      l₁.length = l₂.length ∧ ∀ i (h₁ : i < l₁.length) (h₂ : i < l₂.length), R l₁[i] l₂[i] := by
  rw [forall₂_iff_get]
  rfl

/-- `Forall₂` against a list with one position overwritten: the relation holds at all other
positions for the original list, and at the overwritten position for the new element. -/
theorem forall₂_set_left {R : β → γ → Prop} {l : List β} {x : List γ} {n : Nat}
    (hn : n < l.length) (a : β) :
    Forall₂ R (l.set n a) x ↔
      (l.length = x.length ∧
        ∀ j (h₁ : j < l.length) (h₂ : j < x.length), j ≠ n → R l[j] x[j]) ∧
      ∃ h : n < x.length, R a x[n] := by
  rw [forall₂_iff_getElem]
  constructor
  · rintro ⟨hl, h⟩
    rw [length_set] at hl
    refine ⟨⟨hl, fun j h₁ h₂ hj => ?_⟩, ⟨hl ▸ hn, ?_⟩⟩
    · have := h j (by rw [length_set]; exact h₁) h₂
      rwa [getElem_set_ne (Ne.symm hj)] at this
    · have := h n (by rw [length_set]; exact hn) (hl ▸ hn)
      rwa [getElem_set_self] at this
  · rintro ⟨⟨hl, h⟩, hx, ha⟩
    refine ⟨by rw [length_set]; exact hl, fun j h₁ h₂ => ?_⟩
    by_cases hj : j = n
    · subst hj
      rw [getElem_set_self]
      exact ha
    · rw [getElem_set_ne (Ne.symm hj)]
      exact h j (by rw [length_set] at h₁; exact h₁) h₂ hj

/-- the same decomposition for the list itself -/
theorem forall₂_split_at {R : β → γ → Prop} {l : List β} {x : List γ} {n : Nat}
    (hn : n < l.length) :
    Forall₂ R l x ↔
      (l.length = x.length ∧
        ∀ j (h₁ : j < l.length) (h₂ : j < x.length), j ≠ n → R l[j] x[j]) ∧
      ∃ h : n < x.length, R l[n] x[n] := by
  have := forall₂_set_left (R := R) (x := x) hn l[n]
  rwa [set_getElem_self] at this

/-- `Forall₂` against a one-position overwrite, when the relation is reflexive elsewhere -/
theorem forall₂_set_self {R : β → β → Prop} {l : List β} {n : Nat} (hn : n < l.length) (a : β)
    (hrefl : ∀ y ∈ l, R y y) (ha : R a l[n]) : Forall₂ R (l.set n a) l := by
  rw [forall₂_set_left hn]
  exact ⟨⟨rfl, fun j h₁ _ _ => hrefl _ (getElem_mem h₁)⟩, hn, ha⟩

theorem mem_set_imp {l : List β} {n : Nat} {a y : β} (h : y ∈ l.set n a) : y = a ∨ y ∈ l := by
  rcases mem_or_eq_of_mem_set h with h | h
  · exact Or.inr h
  · exact Or.inl h

/-- length of a `flatMap` producing two elements per input -/
theorem length_flatMap_pair {δ : Type} (l : List β) (f g : β → δ) :
    (l.flatMap (fun r => [f r, g r])).length = 2 * l.length := by
  induction l with
  | nil => rfl
  | cons a t ih =>
    rw [flatMap_cons, length_append, ih]
    simp only [length_cons, length_nil]
    omega

/-- indexing a `flatMap` producing two elements per input -/
theorem getElem?_flatMap_pair {δ : Type} (l : List β) (f g : β → δ) (i : Nat) :
    (l.flatMap (fun r => [f r, g r]))[i]? =
      (l[i / 2]?).map (fun r => if i % 2 = 0 then f r else g r) := by
  induction l generalizing i with
  | nil => simp
  | cons a t ih =>
    rw [flatMap_cons]
    match i with
    | 0 => simp
    | 1 => simp
    | n + 2 =>
      have h1 : (n + 2) / 2 = n / 2 + 1 := by omega
      have h2 : (n + 2) % 2 = n % 2 := by omega
      rw [h1, h2, getElem?_cons_succ, ← ih n]
      simp

end PyXAB.ListAux
