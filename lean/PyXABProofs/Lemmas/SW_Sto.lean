/-
  StoSOO: the `b`-refresh `computeB`, the layer scan, the invariant `PInv`, the instrumented
  loop `loopT` (ok-result spec), `pullT`, `receive`.
-/
import PyXABProofs.Lemmas.SW_Vis
import PyXABProofs.Lemmas.SW_Erase

set_option linter.unusedSectionVars false

namespace PyXAB
namespace StoSOO
open Tree TBA SW

variable {α R S : Type} [Add α] [Sub α] [Mul α] [Div α] [OfNat α 2] [NatCast α]
variable [LinearOrder S] [Inhabited S] [Inhabited R]

/-! ### (1) `computeB`, `Refr` -/

theorem computeB_count (cfg : StoCfg S R) (st : TBSt R S) :
    (computeB cfg st).count = st.count := by
  unfold computeB; split <;> rfl

theorem computeB_rewards (cfg : StoCfg S R) (st : TBSt R S) :
    (computeB cfg st).rewards = st.rewards := by
  unfold computeB; split <;> rfl

theorem computeB_idem (cfg : StoCfg S R) (st : TBSt R S) :
    computeB cfg (computeB cfg st) = computeB cfg st := by
  by_cases h : st.count = 0
  · have e : computeB cfg st = { st with b := cfg.inf } := by simp [computeB, h]
    rw [e]; simp [computeB, h]
  · simp [computeB, h]

/-- the refreshed `b` of a cell which has never been evaluated is `inf` -/
theorem computeB_b_of_count_zero (cfg : StoCfg S R) {st : TBSt R S} (h : st.count = 0) :
    (computeB cfg st).b = cfg.inf := by
  simp [computeB, h]

theorem computeB_st0 (cfg : StoCfg S R) : computeB cfg (st0 cfg) = st0 cfg := by
  simp [computeB, st0]

theorem Refr.refl (cfg : StoCfg S R) (a : TBSt R S) : Refr cfg a a := Or.inl rfl

theorem Refr.trans {cfg : StoCfg S R} {a b c : TBSt R S} (h1 : Refr cfg a b)
    (h2 : Refr cfg b c) : Refr cfg a c := by
  rcases h1 with rfl | rfl
  · exact h2
  · rcases h2 with rfl | rfl
    · exact Or.inr rfl
    · exact Or.inr (computeB_idem cfg a)

theorem Refr.count_rewards {cfg : StoCfg S R} {a b : TBSt R S} (h : Refr cfg a b) :
    b.count = a.count ∧ b.rewards = a.rewards := by
  rcases h with rfl | rfl
  · exact ⟨rfl, rfl⟩
  · exact ⟨computeB_count cfg a, computeB_rewards cfg a⟩

theorem ext_refl (cfg : StoCfg S R) (P : Part α (TBSt R S)) : Ext (Refr cfg) (st0 cfg) P P :=
  Ext.refl (Refr.refl cfg) P

theorem ext_trans {cfg : StoCfg S R} {P P' P'' : Part α (TBSt R S)}
    (h1 : Ext (Refr cfg) (st0 cfg) P P') (h2 : Ext (Refr cfg) (st0 cfg) P' P'') :
    Ext (Refr cfg) (st0 cfg) P P'' :=
  Ext.trans (fun _ _ _ h1 h2 => Refr.trans h1 h2) h1 h2

/-! ### (2) The scan of one layer -/

/-- Node relation of the scan: the payload is unchanged, or the cell is a leaf and its payload
has been refreshed. -/
def RefrN (cfg : StoCfg S R) (_ : Nat) (nd nd' : Node α (TBSt R S)) : Prop :=
  nd'.st = nd.st ∨ (nd.children = none ∧ nd'.st = computeB cfg nd.st)

theorem RefrN.refr {cfg : StoCfg S R} {i : Nat} {a b : Node α (TBSt R S)}
    (h : RefrN cfg i a b) : Refr cfg a.st b.st := by
  rcases h with h | ⟨_, h⟩
  · exact Or.inl h
  · exact Or.inr h

/-- the refreshed-`b` score does not see a refresh -/
theorem leafScore_refresh (cfg : StoCfg S R) (P : Part α (TBSt R S)) {id : Nat}
    {nd : Node α (TBSt R S)} (hn : P.nodes[id]? = some nd) (w : Nat) :
    leafScore (P.modifySt id (fun _ => computeB cfg nd.st)) (fun st => (computeB cfg st).b) w =
      leafScore P (fun st => (computeB cfg st).b) w := by
  unfold leafScore
  rw [getElem?_modifySt]
  cases hw : P.nodes[w]? with
  | none => rfl
  | some x =>
    by_cases hi : id = w
    · subst hi
      obtain rfl := getElem?_inj hn hw
      simp [computeB_idem]
    · simp [hi]

theorem scan_spec (cfg : StoCfg S R) : ∀ (l : List Nat) (j : Nat) (P : Part α (TBSt R S))
    (best : Option (Nat × Nat × S)) (P1 : Part α (TBSt R S)) (best' : Option (Nat × Nat × S)),
    scan cfg l j P best = (P1, best') →
      PRel (RefrN cfg) P P1 ∧
      (∀ w ∈ l, ∀ nd, P.nodes[w]? = some nd → nd.children = none →
        ∃ nd1, P1.nodes[w]? = some nd1 ∧ nd1.st = computeB cfg nd.st) ∧
      best' = amFoldO (leafScore P (fun st => (computeB cfg st).b)) l j best
  | [], j, P, best, P1, best', hrun => by
    simp only [scan, Prod.mk.injEq] at hrun
    obtain ⟨rfl, rfl⟩ := hrun
    exact ⟨PRel.refl (fun _ _ => Or.inl rfl) P, by simp, rfl⟩
  | id :: rest, j, P, best, P1, best', hrun => by
    unfold scan at hrun
    cases hn : P.nodes[id]? with
    | none =>
      simp only [hn] at hrun
      obtain ⟨h1, h2, h3⟩ := scan_spec cfg rest (j + 1) P best P1 best' hrun
      have hs : leafScore P (fun st => (computeB cfg st).b) id = none := by
        simp [leafScore, hn]
      refine ⟨h1, ?_, ?_⟩
      · intro w hw nd hnd hleaf
        rcases List.mem_cons.1 hw with rfl | hw
        · rw [hn] at hnd; cases hnd
        · exact h2 w hw nd hnd hleaf
      · simp only [amFoldO, amStepO, hs]; exact h3
    | some nd =>
      simp only [hn] at hrun
      by_cases hl : nd.children.isNone = true
      · have hleaf : nd.children = none := by simpa using hl
        have hs : leafScore P (fun st => (computeB cfg st).b) id = some (computeB cfg nd.st).b := by
          simp [leafScore, hn, hl]
        -- the three branches call the scan on the same refreshed tree
        have key : scan cfg rest (j + 1) (P.modifySt id (fun _ => computeB cfg nd.st))
            (amStepO (leafScore P (fun st => (computeB cfg st).b)) best j id) = (P1, best') := by
          simp only [hl, if_true] at hrun
          simp only [amStepO, hs]
          cases best with
          | none => exact hrun
          | some bst =>
            obtain ⟨bj, bid, bb⟩ := bst
            simp only at hrun ⊢
            split at hrun
            · rename_i hc; simp only [hc, if_true]; exact hrun
            · rename_i hc; simp only [hc, if_false]; exact hrun
        obtain ⟨h1, h2, h3⟩ := scan_spec cfg rest (j + 1) _ _ P1 best' key
        have h0 := (PRel_modifySt P id (fun _ => computeB cfg nd.st)).with_src
        refine ⟨?_, ?_, ?_⟩
        · refine h0.trans' h1 ?_
          intro i a b c sab _ ⟨hb, ha⟩ hc
          by_cases hi : i = id
          · subst hi
            obtain rfl := getElem?_inj hn ha
            simp only [if_true] at hb
            rcases hc with hc | ⟨_, hc⟩
            · exact Or.inr ⟨hleaf, by rw [hc, hb]⟩
            · exact Or.inr ⟨hleaf, by rw [hc, hb, computeB_idem]⟩
          · simp only [hi, if_false] at hb
            rcases hc with hc | ⟨hc1, hc⟩
            · exact Or.inl (by rw [hc, hb])
            · exact Or.inr ⟨by rw [← sab.children]; exact hc1, by rw [hc, hb]⟩
        · intro w hw x hx hxleaf
          obtain ⟨x', a1, a2, a3, _⟩ := h0.node w x hx
          by_cases hi : w = id
          · subst hi
            obtain rfl := getElem?_inj hn hx
            simp only [if_true] at a3
            obtain ⟨x1, b1, _, b3⟩ := h1.node w x' a1
            refine ⟨x1, b1, ?_⟩
            rcases b3 with b3 | ⟨_, b3⟩
            · rw [b3, a3]
            · rw [b3, a3, computeB_idem]
          · simp only [hi, if_false] at a3
            rcases List.mem_cons.1 hw with rfl | hw
            · exact absurd rfl hi
            · obtain ⟨x1, b1, b2⟩ := h2 w hw x' a1 (by rw [a2.children]; exact hxleaf)
              exact ⟨x1, b1, by rw [b2, a3]⟩
        · rw [h3]
          simp only [amFoldO]
          exact amFoldO_congr (fun w _ => leafScore_refresh cfg P hn w) _ _
      · simp only [hl] at hrun
        obtain ⟨h1, h2, h3⟩ := scan_spec cfg rest (j + 1) P best P1 best' hrun
        have hs : leafScore P (fun st => (computeB cfg st).b) id = none := by
          simp [leafScore, hn, hl]
        refine ⟨h1, ?_, ?_⟩
        · intro w hw x hx hxleaf
          rcases List.mem_cons.1 hw with rfl | hw
          · obtain rfl := getElem?_inj hn hx
            simp [hxleaf] at hl
          · exact h2 w hw x hx hxleaf
        · simp only [amFoldO, amStepO, hs]; exact h3

/-- What the scan of a whole layer (started with `best = none`) guarantees, expressed on the
refreshed tree `P1`. -/
structure ScanPost (cfg : StoCfg S R) (l : List Nat) (P P1 : Part α (TBSt R S))
    (best' : Option (Nat × Nat × S)) : Prop where
  prel : PRel (RefrN cfg) P P1
  refreshed : ∀ w ∈ l, ∀ nd, P.nodes[w]? = some nd → nd.children = none →
    ∃ nd1, P1.nodes[w]? = some nd1 ∧ nd1.st = computeB cfg nd.st
  /-- every leaf of the list carries a refreshed payload in `P1` -/
  fixed : ∀ w ∈ l, ∀ nd, P1.nodes[w]? = some nd → nd.children = none →
    nd.st = computeB cfg nd.st
  best : (best' = none ∧ ∀ w ∈ l, leafScore P1 (·.b) w = none) ∨
    (∃ k m x, best' = some (k, m, x) ∧ l[k]? = some m ∧ IsLastMax (leafScore P1 (·.b)) l m x)

theorem scan_spec0 (cfg : StoCfg S R) {l : List Nat} {P P1 : Part α (TBSt R S)}
    {best' : Option (Nat × Nat × S)} (hrun : scan cfg l 0 P none = (P1, best')) :
    ScanPost cfg l P P1 best' := by
  obtain ⟨h1, h2, h3⟩ := scan_spec cfg l 0 P none P1 best' hrun
  have hsc : ∀ w ∈ l, leafScore P (fun st => (computeB cfg st).b) w = leafScore P1 (·.b) w := by
    intro w hw
    unfold leafScore
    cases h0 : P.nodes[w]? with
    | none =>
      have : P1.nodes[w]? = none := by
        rw [List.getElem?_eq_none_iff] at h0 ⊢; rw [h1.len]; exact h0
      simp [this]
    | some nd =>
      obtain ⟨nd1, a1, a2, _⟩ := h1.node w nd h0
      cases hc : nd.children with
      | none =>
        obtain ⟨nd1', b1, b2⟩ := h2 w hw nd h0 hc
        obtain rfl := getElem?_inj a1 b1
        simp [a1, a2.children, hc, b2]
      | some cs => simp [a1, a2.children, hc]
  refine ⟨h1, h2, ?_, ?_⟩
  · intro w hw nd1 hnd1 hleaf
    obtain ⟨nd, a1, a2, _⟩ := h1.bwd hnd1
    obtain ⟨nd1', b1, b2⟩ := h2 w hw nd a1 (by rw [← a2.children]; exact hleaf)
    obtain rfl := getElem?_inj hnd1 b1
    rw [b2, computeB_idem]
  · rcases amFoldO_none (leafScore P (fun st => (computeB cfg st).b)) l 0 with
      ⟨e1, e2⟩ | ⟨k, m, x, e1, e2, e3⟩
    · left
      exact ⟨by rw [h3, e1], fun w hw => by rw [← hsc w hw]; exact e2 w hw⟩
    · right
      exact ⟨k, m, x, by rw [h3, e1, Nat.zero_add], e2, e3.congr hsc⟩

/-! ### (3) `PInv` -/

theorem PInv.of_prel {cfg : StoCfg S R} {P P' : Part α (TBSt R S)}
    {τ : Nat → Node α (TBSt R S) → Node α (TBSt R S) → Prop} (h : PInv cfg P) (hr : PRel τ P P')
    (hτ : ∀ i a b, τ i a b → b.st.count = a.st.count ∧ b.st.rewards = a.st.rewards) :
    PInv cfg P' where
  wf := hr.wf h.wf
  internal := by
    intro i nd' hi hne
    obtain ⟨nd, a1, a2, a3⟩ := hr.bwd hi
    rw [(hτ _ _ _ a3).1]
    exact h.internal i nd a1 (by rw [← a2.children]; exact hne)
  count := by
    intro i nd' hi
    obtain ⟨nd, a1, _, a3⟩ := hr.bwd hi
    rw [(hτ _ _ _ a3).1, (hτ _ _ _ a3).2]
    exact h.count i nd a1
  atMostK := by
    intro i nd' hi hpos
    obtain ⟨nd, a1, _, a3⟩ := hr.bwd hi
    rw [(hτ _ _ _ a3).1] at hpos ⊢
    exact h.atMostK i nd a1 hpos

theorem PInv.refresh {cfg : StoCfg S R} {P P' : Part α (TBSt R S)} (h : PInv cfg P)
    (hr : PRel (RefrN cfg) P P') : PInv cfg P' :=
  h.of_prel hr (fun _ _ _ hab => hab.refr.count_rewards)

theorem PInv.step {cfg : StoCfg S R} {P P' : Part α (TBSt R S)} {p : Nat}
    {nd : Node α (TBSt R S)} (h : PInv cfg P) (St : Step P P' (st0 cfg) p nd)
    (hp : P.nodes[p]? = some nd) (hleaf : nd.children = none)
    (hk : cfg.countLT nd.st.count = false) (hK : 1 ≤ K P) : PInv cfg P' where
  wf := St.wf h.wf hp hleaf hK
  internal := by
    intro i x' hi hne
    rcases St.inv hp hi with ⟨x, a1, _, _, _, _, a6, a7, _⟩ | ⟨j, _, _, _, _, _, a6, _⟩
    · rw [a6]
      by_cases hip : i = p
      · subst hip
        obtain rfl := getElem?_inj hp a1
        exact hk
      · exact h.internal i x a1 (by rw [← a7 hip]; exact hne)
    · exact absurd a6 hne
  count := by
    intro i x' hi
    rcases St.inv hp hi with ⟨x, a1, _, _, _, _, a6, _⟩ | ⟨j, _, _, _, _, _, _, _, a8⟩
    · rw [a6]; exact h.count i x a1
    · rw [a8]; rfl
  atMostK := by
    intro i x' hi hpos
    rcases St.inv hp hi with ⟨x, a1, _, _, _, _, a6, _⟩ | ⟨j, _, _, _, _, _, _, _, a8⟩
    · rw [a6] at hpos ⊢; exact h.atMostK i x a1 hpos
    · rw [a8] at hpos; simp [st0] at hpos

theorem PInv.init (cfg : StoCfg S R) (k : Kind) (domain : Box α) :
    PInv cfg (Part.init k domain (st0 cfg)) where
  wf := init_WF' k domain (st0 cfg)
  internal := by
    intro i nd hi hne
    have : i = 0 := by
      have := lt_length_of_getElem? hi; simp [Part.init] at this; exact this
    subst this
    simp [Part.init] at hi; subst hi; simp at hne
  count := by
    intro i nd hi
    have : i = 0 := by
      have := lt_length_of_getElem? hi; simp [Part.init] at this; exact this
    subst this
    simp [Part.init] at hi; subst hi; rfl
  atMostK := by
    intro i nd hi hpos
    have : i = 0 := by
      have := lt_length_of_getElem? hi; simp [Part.init] at this; exact this
    subst this
    simp [Part.init] at hi; subst hi; simp [st0] at hpos

/-! ### (4) The instrumented loop -/

/-- What a successful `loopT` started at layer `h` with threshold `bmax` guarantees. -/
structure LoopPost (cfg : StoCfg S R) (h : Nat) (bmax : S) (P : Part α (TBSt R S))
    (ds : List (Draw α)) (P' : Part α (TBSt R S)) (ds' : List (Draw α)) (h' j v : Nat)
    (tr : List (Ev α (TBSt R S) S)) : Prop where
  ext : Ext (Refr cfg) (st0 cfg) P P'
  pinv : PInv cfg P'
  len : tr.length ≤ ds.length
  drop : ds' = ds.drop tr.length
  evs : ∀ ev ∈ tr, EvOK cfg ev ∧ h ≤ ev.h ∧ bmax ≤ ev.score ∧
    Ext (Refr cfg) (st0 cfg) P ev.before
  mono : TraceMono tr
  hge : h ≤ h'
  handed : Handed cfg P' h' j v

/-- the scan is an extension -/
theorem ext_of_refresh {cfg : StoCfg S R} {P P1 : Part α (TBSt R S)}
    (hr : PRel (RefrN cfg) P P1) : Ext (Refr cfg) (st0 cfg) P P1 :=
  Ext.of_prel hr (fun _ _ _ h => h.refr)

/-- Weakening of the postcondition of the recursive call: the call was made at layer `h + 1` on
a tree `P1` extending `P`, with a threshold `b ≥ bmax`. -/
theorem LoopPost.weaken {cfg : StoCfg S R} {h : Nat} {bmax b : S} {P P1 P' : Part α (TBSt R S)}
    {ds ds' : List (Draw α)} {h' j v : Nat} {tr : List (Ev α (TBSt R S) S)}
    (hE : Ext (Refr cfg) (st0 cfg) P P1) (hb : bmax ≤ b)
    (hp : LoopPost cfg (h + 1) b P1 ds P' ds' h' j v tr) :
    LoopPost cfg h bmax P ds P' ds' h' j v tr :=
  ⟨ext_trans hE hp.ext, hp.pinv, hp.len, hp.drop,
    fun ev hev => by
      obtain ⟨a, b1, c, d⟩ := hp.evs ev hev
      exact ⟨a, by omega, le_trans hb c, ext_trans hE d⟩,
    hp.mono, by have := hp.hge; omega, hp.handed⟩

theorem loopT_spec (cfg : StoCfg S R) (time : Nat) :
    ∀ (fuel h : Nat) (bmax : S) (P : Part α (TBSt R S)) (ds : List (Draw α))
      (P' : Part α (TBSt R S)) (ds' : List (Draw α)) (bm : S) (h' j v : Nat)
      (tr : List (Ev α (TBSt R S) S)),
      PInv cfg P → (∀ d ∈ ds, DrawOKLen P.kind (dimn P) d) →
      loopT cfg time fuel h bmax P ds = .ok (P', ds', bm, h', j, v, tr) →
      LoopPost cfg h bmax P ds P' ds' h' j v tr
  | 0, _, _, _, _, _, _, _, _, _, _, _, _, _, hrun => by simp [loopT] at hrun
  | fuel + 1, h, bmax, P, ds, P', ds', bm, h', j, v, tr, hI, hds, hrun => by
    unfold loopT at hrun
    split at hrun
    case isFalse hh => simp at hrun
    case isTrue hh =>
      split at hrun
      case isFalse ht => simp at hrun
      case isTrue ht =>
        cases hlay : P.layers[h]? with
        | none => simp [hlay] at hrun
        | some layer =>
          simp only [hlay] at hrun
          cases hsc : scan cfg layer 0 P none with
          | mk P1 res =>
            have hp := scan_spec0 cfg hsc
            have hE1 : Ext (Refr cfg) (st0 cfg) P P1 := ext_of_refresh hp.prel
            have hI1 : PInv cfg P1 := hI.refresh hp.prel
            have hds1 : ∀ d ∈ ds, DrawOKLen P1.kind (dimn P1) d := by
              intro d hd; rw [hE1.kind, hE1.dimn]; exact hds d hd
            have hlay1 : P1.layers[h]? = some layer := by rw [hp.prel.layers]; exact hlay
            -- the continuation without expansion
            have hskip : loopT cfg time fuel (h + 1) bmax P1 ds = .ok (P', ds', bm, h', j, v, tr) →
                LoopPost cfg h bmax P ds P' ds' h' j v tr := fun hrun' =>
              (loopT_spec cfg time fuel (h + 1) bmax P1 ds P' ds' bm h' j v tr hI1 hds1
                hrun').weaken hE1 (le_refl _)
            simp only [hsc] at hrun
            rcases hp.best with ⟨rfl, _⟩ | ⟨k, m, x, rfl, hk, hmax⟩
            · exact hskip hrun
            · simp only at hrun
              split at hrun
              case isFalse hc => exact hskip hrun
              case isTrue hc =>
                obtain ⟨nd, hm, hleaf, hx⟩ := leafScore_eq_some_iff.1 hmax.score
                obtain ⟨nd2, hm2, hdep⟩ := WF_node_of_mem_layer hI1.wf hlay1 hmax.mem
                obtain rfl := getElem?_inj hm hm2
                simp only [hm] at hrun
                have hhd : h ≤ P1.depth := by
                  have := lt_length_of_getElem? hlay1
                  rw [hI1.wf.layers_len] at this; omega
                split at hrun
                case isTrue hcl =>
                  simp only [Except.ok.injEq, Prod.mk.injEq] at hrun
                  obtain ⟨rfl, rfl, rfl, rfl, rfl, rfl, rfl⟩ := hrun
                  exact ⟨hE1, hI1, Nat.zero_le _, rfl, by simp, List.Pairwise.nil,
                    Nat.le_refl _, ⟨by omega, layer, hlay1, hk, hp.fixed, nd, hm, hleaf, hdep,
                      hcl, by rw [hx]; exact hmax⟩⟩
                case isFalse hcl =>
                  have hcl' : cfg.countLT nd.st.count = false := by simpa using hcl
                  cases hmk : P1.makeChildrenD (st0 cfg) m (decide (h ≥ P1.depth)) ds with
                  | error e => simp [hmk] at hrun
                  | ok res =>
                    obtain ⟨P2, ds2⟩ := res
                    simp only [hmk] at hrun
                    cases hrec : loopT cfg time fuel (h + 1) x P2 ds2 with
                    | error e => simp [hrec] at hrun
                    | ok res =>
                      obtain ⟨P3, ds3, bm3, h3, j3, v3, tr3⟩ := res
                      simp only [hrec, Except.ok.injEq, Prod.mk.injEq] at hrun
                      obtain ⟨rfl, rfl, rfl, rfl, rfl, rfl, rfl⟩ := hrun
                      obtain ⟨⟨d, rfl⟩, St, W2, hK⟩ := expand_ok hI1.wf hm hleaf
                        (by rw [hdep]) hds1 hmk
                      have hE2 : Ext (Refr cfg) (st0 cfg) P1 P2 :=
                        Ext.of_step (Refr.refl cfg) St hI1.wf hm hleaf
                      have hI2 : PInv cfg P2 := hI1.step St hm hleaf hcl' hK
                      have hds2 : ∀ d' ∈ ds2, DrawOKLen P2.kind (dimn P2) d' := by
                        intro d' hd'
                        rw [hE2.kind, hE2.dimn]
                        exact hds1 d' (List.mem_cons_of_mem _ hd')
                      have hq := loopT_spec cfg time fuel (h + 1) x P2 ds2 P3 ds3 bm3 h3 j3 v3
                        tr3 hI2 hds2 hrec
                      have hE12 := ext_trans hE1 hE2
                      refine ⟨ext_trans hE12 hq.ext, hq.pinv, ?_, ?_, ?_, ?_, ?_, hq.handed⟩
                      · simp only [List.length_cons]; have := hq.len; omega
                      · simp only [List.length_cons, List.drop_succ_cons]; exact hq.drop
                      · intro ev hev
                        rcases List.mem_cons.1 hev with rfl | hev
                        · exact ⟨⟨hI1, by simp only; omega, ⟨layer, hlay1, hp.fixed, hmax⟩,
                            ⟨nd, hm, hleaf, hcl', hx, hdep⟩⟩, Nat.le_refl _, hc, hE1⟩
                        · obtain ⟨a, b, c, e⟩ := hq.evs ev hev
                          exact ⟨a, by omega, le_trans hc c, ext_trans hE12 e⟩
                      · refine List.Pairwise.cons ?_ hq.mono
                        intro ev hev
                        obtain ⟨_, b, c, _⟩ := hq.evs ev hev
                        exact ⟨by simp only; omega, c⟩
                      · have := hq.hge; omega

/-! ### (5) `pullT` -/

theorem pullT_spec (cfg : StoCfg S R) {s s' : StoSOO α R S} {time : Nat}
    {ds ds' : List (Draw α)} {v : Nat} {tr : List (Ev α (TBSt R S) S)}
    (hI : Inv cfg s) (hds : ∀ d ∈ ds, DrawOKLen s.P.kind (dimn s.P) d)
    (hrun : pullT cfg s time ds = .ok (s', ds', v, tr)) :
    (∃ h j, s'.sel = some (h, j) ∧ LoopPost cfg 0 cfg.negInf s.P ds s'.P ds' h j v tr) ∧
      Ready cfg s' v ∧ s'.iteration = time := by
  unfold pullT at hrun
  cases hl : loopT cfg time (s.P.depth + 4) 0 cfg.negInf s.P ds with
  | error e => simp [hl] at hrun
  | ok res =>
    obtain ⟨P1, ds1, bm, h, j, id, tr1⟩ := res
    simp only [hl, Except.ok.injEq, Prod.mk.injEq] at hrun
    obtain ⟨rfl, rfl, rfl, rfl⟩ := hrun
    have hp := loopT_spec cfg time _ 0 cfg.negInf s.P ds P1 ds1 bm h j id tr1 hI hds hl
    exact ⟨⟨h, j, rfl, hp⟩, ⟨hp.pinv, h, j, rfl, hp.handed⟩, rfl⟩

/-! ### (6) `receive` -/

/-- the payload update of `receive_reward` -/
def recvSt (cfg : StoCfg S R) (r : R) (st : TBSt R S) : TBSt R S :=
  { st with count := st.count + 1, rewards := st.rewards ++ [r],
            mean := cfg.meanOf (st.rewards ++ [r]) (st.count + 1) }

theorem PInv.recv {cfg : StoCfg S R} {P : Part α (TBSt R S)} (h : PInv cfg P) {v : Nat}
    {nd : Node α (TBSt R S)} (hv : P.nodes[v]? = some nd) (hleaf : nd.children = none)
    (hk : cfg.countLT nd.st.count = true) (r : R) :
    PInv cfg (P.modifySt v (recvSt cfg r)) := by
  have hr := (PRel_modifySt P v (recvSt cfg r)).with_src
  refine ⟨hr.wf h.wf, ?_, ?_, ?_⟩
  · intro i x' hi hne
    obtain ⟨x, a1, a2, a3, _⟩ := hr.bwd hi
    by_cases hiv : i = v
    · subst hiv
      obtain rfl := getElem?_inj hv a1
      exact absurd (a2.children.trans hleaf) hne
    · simp only [hiv, if_false] at a3
      rw [a3]
      exact h.internal i x a1 (by rw [← a2.children]; exact hne)
  · intro i x' hi
    obtain ⟨x, a1, _, a3, _⟩ := hr.bwd hi
    have := h.count i x a1
    by_cases hiv : i = v
    · simp only [hiv, if_true] at a3
      rw [a3]; simp [recvSt, this]
    · simp only [hiv, if_false] at a3
      rw [a3]; exact this
  · intro i x' hi hpos
    obtain ⟨x, a1, _, a3, _⟩ := hr.bwd hi
    by_cases hiv : i = v
    · subst hiv
      obtain rfl := getElem?_inj hv a1
      simp only [if_true] at a3
      rw [a3]
      simpa [recvSt] using hk
    · simp only [hiv, if_false] at a3
      rw [a3] at hpos ⊢
      exact h.atMostK i x a1 hpos

theorem receive_spec (cfg : StoCfg S R) {s : StoSOO α R S} {v : Nat} (r : R)
    (hR : Ready cfg s v) :
    ∃ s', receive cfg s r = .ok s' ∧ Inv cfg s' ∧
      s'.P = s.P.modifySt v (fun st =>
        { st with count := st.count + 1, rewards := st.rewards ++ [r],
                  mean := cfg.meanOf (st.rewards ++ [r]) (st.count + 1) }) ∧
      s'.iteration = s.iteration ∧ s'.bmax = s.bmax ∧ s'.sel = s.sel := by
  obtain ⟨hI, h, j, hsel, _, l, hl, hj, _, nd, hv, hleaf, _, hk, _⟩ := hR
  refine ⟨{ s with P := s.P.modifySt v (recvSt cfg r) }, ?_, hI.recv hv hleaf hk r, rfl, rfl,
    rfl, rfl⟩
  unfold receive
  simp only [hsel, hl, hj]
  rfl

/-- Frame of `receive`: the skeleton is unchanged, every cell `i ≠ v` is unchanged, and the
handed-out cell `v` gets one more evaluation. -/
theorem receive_frame (cfg : StoCfg S R) {s s' : StoSOO α R S} {v : Nat} {r : R}
    (hR : Ready cfg s v) (hrun : receive cfg s r = .ok s') :
    s'.P.kind = s.P.kind ∧ s'.P.layers = s.P.layers ∧ s'.P.depth = s.P.depth ∧
      s'.P.nodes.length = s.P.nodes.length ∧ dimn s'.P = dimn s.P ∧
      (∀ i, i ≠ v → s'.P.nodes[i]? = s.P.nodes[i]?) ∧
      ∃ nd nd', s.P.nodes[v]? = some nd ∧ s'.P.nodes[v]? = some nd' ∧
        nd'.depth = nd.depth ∧ nd'.index = nd.index ∧ nd'.parent = nd.parent ∧
        nd'.children = nd.children ∧ nd'.box = nd.box ∧
        nd'.st.count = nd.st.count + 1 ∧ nd'.st.rewards = nd.st.rewards ++ [r] ∧
        nd'.st.mean = cfg.meanOf (nd.st.rewards ++ [r]) (nd.st.count + 1) ∧
        nd'.st.u = nd.st.u ∧ nd'.st.b = nd.st.b ∧ nd'.st.var = nd.st.var ∧
        nd'.st.tau = nd.st.tau := by
  obtain ⟨s2, e, _, hP, _⟩ := receive_spec cfg r hR
  rw [e] at hrun
  have hs : s2 = s' := by simpa using hrun
  subst hs
  obtain ⟨_, _, _, _, _, _, _, _, _, nd, hv, _⟩ := hR
  have hr := PRel_modifySt s.P v (recvSt cfg r)
  have hP' : s2.P = s.P.modifySt v (recvSt cfg r) := hP
  rw [hP']
  refine ⟨hr.kind, hr.layers, hr.depth, hr.len, hr.dimn_eq, ?_, nd,
    { nd with st := recvSt cfg r nd.st }, hv, ?_, rfl, rfl, rfl,
    rfl, rfl, rfl, rfl, rfl, rfl, rfl, rfl, rfl⟩
  · intro i hi
    rw [getElem?_modifySt]
    have : ¬ v = i := fun e => hi e.symm
    cases s.P.nodes[i]? <;> simp [this]
  · rw [getElem?_modifySt, hv]; simp [recvSt]

end StoSOO
end PyXAB
