/-
  `backwardLayer` / `backward` (= `updateBackwardTree`): never raise on a well-formed tree,
  change only B-values, leave the root alone and establish the B-recursion at every non-root
  node.
-/
import PyXABProofs.Lemmas.TBB_Skel
import PyXABProofs.Lemmas.TBB_Order

namespace PyXAB
namespace TBB

open Tree

variable {α R S : Type} [LinearOrder S] [Inhabited S] [Inhabited R]

/-- The B-value that `backwardLayer` writes into node `nd`, reading the children in `P`. -/
def bNew (negInf : S) (P : Part α (TBSt R S)) (nd : Node α (TBSt R S)) : S :=
  match nd.children with
  | none => nd.st.u
  | some cs => min nd.st.u (cs.foldl (fun t c => max t (P.stOf c).b) negInf)

/-- `Q` differs from `P` in B-values only. -/
structure OnlyB (P Q : Part α (TBSt R S)) : Prop where
  kind : Q.kind = P.kind
  layers : Q.layers = P.layers
  depth : Q.depth = P.depth
  len : Q.nodes.length = P.nodes.length
  node : ∀ (j : Nat) (nd : Node α (TBSt R S)), P.nodes[j]? = some nd →
    ∃ b, Q.nodes[j]? = some { nd with st := { nd.st with b := b } }

namespace OnlyB
variable {P Q T : Part α (TBSt R S)}

omit [LinearOrder S] [Inhabited S] [Inhabited R] in
theorem refl (P : Part α (TBSt R S)) : OnlyB P P :=
  ⟨rfl, rfl, rfl, rfl, fun _ nd h => ⟨nd.st.b, h⟩⟩

omit [LinearOrder S] [Inhabited S] [Inhabited R] in
theorem trans (h1 : OnlyB P Q) (h2 : OnlyB Q T) : OnlyB P T :=
  ⟨h2.kind.trans h1.kind, h2.layers.trans h1.layers, h2.depth.trans h1.depth,
    h2.len.trans h1.len, fun j nd h => by
    obtain ⟨b, hb⟩ := h1.node j nd h
    obtain ⟨b', hb'⟩ := h2.node j _ hb
    exact ⟨b', hb'⟩⟩

omit [LinearOrder S] [Inhabited S] [Inhabited R] in
theorem skel (h : OnlyB P Q) : Skel P Q :=
  ⟨h.kind, h.layers, h.depth, fun j => by
    cases hp : P.nodes[j]? with
    | none =>
      have : Q.nodes[j]? = none := by
        rw [List.getElem?_eq_none_iff] at hp ⊢
        rw [h.len]; exact hp
      rw [this]
    | some nd =>
      obtain ⟨b, hb⟩ := h.node j nd hp
      rw [hb]; rfl⟩

omit [LinearOrder S] [Inhabited S] [Inhabited R] in
theorem inv (h : OnlyB P Q) {j : Nat} {nd' : Node α (TBSt R S)} (hj : Q.nodes[j]? = some nd') :
    ∃ nd, P.nodes[j]? = some nd ∧ nd' = { nd with st := { nd.st with b := nd'.st.b } } := by
  have hlt : j < P.nodes.length := by rw [← h.len]; exact lt_length_of_getElem? hj
  obtain ⟨b, hb⟩ := h.node j _ (List.getElem?_eq_getElem hlt)
  obtain rfl := getElem?_inj hb hj
  exact ⟨_, List.getElem?_eq_getElem hlt, rfl⟩

omit [LinearOrder S] [Inhabited S] [Inhabited R] in
theorem of_upd {F : Nat → Node α (TBSt R S) → TBSt R S} (h : Upd P Q F)
    (hF : ∀ j nd, P.nodes[j]? = some nd → ∃ b, F j nd = { nd.st with b := b }) : OnlyB P Q :=
  ⟨h.kind, h.layers, h.depth, h.skel.len, fun j nd hj => by
    obtain ⟨b, hb⟩ := hF j nd hj
    exact ⟨b, by rw [h.get hj, hb]⟩⟩

end OnlyB

/-! ### One layer -/

/-- one step of the fold of `backwardLayer` -/
def backStep (negInf : S) (P : Part α (TBSt R S)) (id : Nat) : Part α (TBSt R S) :=
  match P.nodes[id]? with
  | none => P
  | some nd =>
    match nd.children with
    | none => P.modifySt id (fun s => { s with b := s.u })
    | some cs =>
      let tempB := cs.foldl (fun t c => max t (P.stOf c).b) negInf
      P.modifySt id (fun s => { s with b := min s.u tempB })

theorem backwardLayer_eq (negInf : S) (P : Part α (TBSt R S)) (layer : List Nat) :
    backwardLayer negInf P layer = layer.foldl (backStep negInf) P := rfl

omit [Inhabited R] in
theorem backStep_upd (negInf : S) (P : Part α (TBSt R S)) (id : Nat) :
    Upd P (backStep negInf P id)
      (fun j nd => if j = id then { nd.st with b := bNew negInf P nd } else nd.st) := by
  unfold backStep
  split
  · next hi =>
    refine (Upd.refl P).congr (fun j nd hj => ?_)
    have : j ≠ id := by rintro rfl; simp [hi] at hj
    simp [this]
  · next nd0 hi =>
    split
    · next hc =>
      refine (modifySt_upd P id _).congr (fun j nd hj => ?_)
      by_cases hji : j = id
      · subst hji
        obtain rfl := getElem?_inj hi hj
        simp [bNew, hc]
      · simp [hji]
    · next cs hc =>
      refine (modifySt_upd P id _).congr (fun j nd hj => ?_)
      by_cases hji : j = id
      · subst hji
        obtain rfl := getElem?_inj hi hj
        simp [bNew, hc]
      · simp [hji]

omit [Inhabited S] in
theorem foldl_max_congr (negInf : S) (f g : Nat → S) (cs : List Nat)
    (h : ∀ c ∈ cs, f c = g c) :
    cs.foldl (fun t c => max t (f c)) negInf = cs.foldl (fun t c => max t (g c)) negInf := by
  induction cs generalizing negInf with
  | nil => rfl
  | cons x cs ih =>
    simp only [List.foldl_cons]
    rw [h x (List.mem_cons_self ..)]
    exact ih _ (fun c hc => h c (List.mem_cons_of_mem _ hc))

omit [Inhabited R] in
theorem bNew_congr (negInf : S) (P Q : Part α (TBSt R S)) (nd : Node α (TBSt R S))
    (h : ∀ cs, nd.children = some cs → ∀ c ∈ cs, Q.stOf c = P.stOf c) :
    bNew negInf Q nd = bNew negInf P nd := by
  unfold bNew
  cases hc : nd.children with
  | none => rfl
  | some cs =>
    simp only
    rw [foldl_max_congr negInf (fun c => (Q.stOf c).b) (fun c => (P.stOf c).b) cs
      (fun c hc' => by rw [h cs hc c hc'])]

/-- `backwardLayer` on a duplicate-free layer none of whose nodes has a child in the layer:
every node of the layer gets the B-value computed from the children's B-values in `P`. -/
theorem backwardLayer_upd (negInf : S) : ∀ (layer : List Nat) (P : Part α (TBSt R S)),
    layer.Nodup →
    (∀ j ∈ layer, ∀ nd, P.nodes[j]? = some nd → ∀ cs, nd.children = some cs →
      ∀ c ∈ cs, c ∉ layer) →
    Upd P (backwardLayer negInf P layer)
      (fun j nd => if j ∈ layer then { nd.st with b := bNew negInf P nd } else nd.st)
  | [], P, _, _ => by simpa [backwardLayer_eq] using Upd.refl P
  | id :: l, P, hnd, hch => by
    rw [List.nodup_cons] at hnd
    have h1 := backStep_upd negInf P id
    have hch' : ∀ j ∈ l, ∀ nd, (backStep negInf P id).nodes[j]? = some nd → ∀ cs,
        nd.children = some cs → ∀ c ∈ cs, c ∉ l := by
      intro j hj nd' hnd' cs hcs c hc hcl
      obtain ⟨nd, g1, g2⟩ := h1.get_inv hnd'
      rw [g2] at hcs
      exact hch j (List.mem_cons_of_mem _ hj) nd g1 cs hcs c hc (List.mem_cons_of_mem _ hcl)
    have h2 := backwardLayer_upd negInf l (backStep negInf P id) hnd.2 hch'
    rw [backwardLayer_eq, List.foldl_cons, ← backwardLayer_eq]
    refine (h1.comp h2).congr (fun j nd hj => ?_)
    by_cases hjl : j ∈ l
    · have hne : j ≠ id := by rintro rfl; exact hnd.1 hjl
      simp only [hjl, hne, if_true, if_false, List.mem_cons, or_true]
      congr 1
      apply bNew_congr
      intro cs hcs c hc
      have hc' := hch j (List.mem_cons_of_mem _ hjl) nd hj cs hcs c hc
      have hcid : c ≠ id := fun e => hc' (e ▸ List.mem_cons_self ..)
      apply stOf_congr
      rw [h1.node c]
      cases P.nodes[c]? with
      | none => rfl
      | some x => simp [hcid]
    · by_cases hji : j = id
      · simp [hji, hnd.1]
      · simp [hjl, hji]

/-! ### All layers -/

/-- one iteration of the loop of `backward` -/
def backF (negInf : S) (P : Part α (TBSt R S)) (i : Nat) : Except Err (Part α (TBSt R S)) :=
  if i + 1 ≤ P.layers.length then
    match P.layers[P.layers.length - (i + 1)]? with
    | some layer => .ok (backwardLayer negInf P layer)
    | none => .error .indexError
  else .error .indexError

theorem backward_eq (negInf : S) (P : Part α (TBSt R S)) :
    backward negInf P = (List.range P.depth).foldlM (backF negInf) P := rfl

/-- the B-recursion at `j` is insensitive to changes elsewhere -/
theorem BRec.transfer {P Q : Part α (TBSt R S)} {j : Nat}
    (hj : Q.nodes[j]? = P.nodes[j]?)
    (hch : ∀ nd cs, P.nodes[j]? = some nd → nd.children = some cs →
      ∀ c ∈ cs, (Q.stOf c).b = (P.stOf c).b)
    (h : BRec P j) : BRec Q j := by
  intro nd hnd
  rw [hj] at hnd
  obtain ⟨h1, h2⟩ := h nd hnd
  refine ⟨h1, fun cs hcs => ?_⟩
  obtain ⟨M, m1, m2, c, m3, m4⟩ := h2 cs hcs
  refine ⟨M, m1, fun c hc => ?_, c, m3, ?_⟩
  · rw [hch nd cs hnd hcs c hc]; exact m2 c hc
  · rw [hch nd cs hnd hcs c m3]; exact m4

/-- loop invariant of `backward` after `n` iterations -/
structure BackInv (P Q : Part α (TBSt R S)) (n : Nat) : Prop where
  onlyB : OnlyB P Q
  keep : ∀ (j : Nat) (nd : Node α (TBSt R S)), P.nodes[j]? = some nd →
    nd.depth + n ≤ P.depth → Q.nodes[j]? = some nd
  brec : ∀ (j : Nat) (nd : Node α (TBSt R S)), Q.nodes[j]? = some nd →
    P.depth < nd.depth + n → BRec Q j

theorem backF_step {negInf : S} (hbot : ∀ x, negInf ≤ x) {P Q : Part α (TBSt R S)} (W : WF P)
    {n : Nat} (hn : n + 1 ≤ P.depth) (I : BackInv P Q n) :
    ∃ Q', backF negInf Q n = .ok Q' ∧ BackInv P Q' (n + 1) := by
  have SK := I.onlyB.skel
  have W' : WF Q := SK.wf W
  have hlen : Q.layers.length = P.depth + 1 := by rw [SK.layers]; exact W.layers_len
  have hidx : Q.layers.length - (n + 1) = P.depth - n := by omega
  have hlt : P.depth - n < Q.layers.length := by omega
  -- the layer processed in this iteration
  obtain ⟨l, hl⟩ : ∃ l, Q.layers[P.depth - n]? = some l := ⟨_, List.getElem?_eq_getElem hlt⟩
  obtain ⟨l1, _, l3⟩ := W'.layers_mem _ l hl
  have hnodup : l.Nodup := l1.imp (fun h => Nat.ne_of_lt h)
  have hch : ∀ j ∈ l, ∀ nd, Q.nodes[j]? = some nd → ∀ cs, nd.children = some cs →
      ∀ c ∈ cs, c ∉ l := by
    intro j hj nd hnd cs hcs c hc hcl
    obtain ⟨nd0, a1, a2⟩ := (l3 j).1 hj
    obtain rfl := getElem?_inj a1 hnd
    obtain ⟨_, cn, _, _, _, _, g1, _, _, g4⟩ := W'.child_facts hnd hcs hc
    obtain ⟨cn', b1, b2⟩ := (l3 c).1 hcl
    obtain rfl := getElem?_inj g1 b1
    omega
  have U := backwardLayer_upd negInf l Q hnodup hch
  refine ⟨backwardLayer negInf Q l, ?_, ?_, ?_, ?_⟩
  · unfold backF
    rw [if_pos (by omega), hidx, hl]
  · refine I.onlyB.trans (OnlyB.of_upd U (fun j nd _ => ?_))
    by_cases hj : j ∈ l
    · exact ⟨bNew negInf Q nd, by simp only [hj, if_true]⟩
    · exact ⟨nd.st.b, by simp only [hj, if_false]⟩
  · intro j nd hnd hd
    have hq := I.keep j nd hnd (by omega)
    have hj : j ∉ l := by
      intro hj
      obtain ⟨nd0, a1, a2⟩ := (l3 j).1 hj
      obtain rfl := getElem?_inj a1 hq
      omega
    rw [U.get hq]; simp only [hj, if_false]
  · intro j nd' hnd' hd
    obtain ⟨nd, g1, g2⟩ := U.get_inv hnd'
    have hnot : ∀ c, c ∉ l → (backwardLayer negInf Q l).nodes[c]? = Q.nodes[c]? := by
      intro c hc
      rw [U.node c]
      cases Q.nodes[c]? with
      | none => rfl
      | some x => simp [hc]
    by_cases hj : j ∈ l
    · -- a node of the processed layer
      have hkids : ∀ cs, nd.children = some cs → ∀ c ∈ cs,
          (backwardLayer negInf Q l).stOf c = Q.stOf c :=
        fun cs hcs c hc => stOf_congr (hnot c (hch j hj nd g1 cs hcs c hc))
      intro nd'' hnd''
      obtain rfl := getElem?_inj hnd' hnd''
      subst g2
      simp only [hj, if_true]
      constructor
      · intro hc
        simp only [bNew, hc]
      · intro cs hcs
        have hne : cs ≠ [] := by
          obtain ⟨hK, a, _, rfl, _⟩ := W'.children j nd cs g1 hcs
          intro e
          have := congrArg List.length e
          simp at this; omega
        obtain ⟨m1, c, m2, m3⟩ := foldl_max_spec negInf hbot (fun c => (Q.stOf c).b) cs hne
        refine ⟨cs.foldl (fun t c => max t (Q.stOf c).b) negInf, ?_, ?_, c, m2, ?_⟩
        · simp only [bNew, hcs]
        · intro c hc; rw [hkids cs hcs c hc]; exact m1 c hc
        · rw [hkids cs hcs c m2]; exact m3
    · -- a deeper node: untouched, and so are its children
      have hdep : nd'.depth = nd.depth := by rw [g2]
      have hnl : ∀ c (cn : Node α (TBSt R S)), Q.nodes[c]? = some cn →
          cn.depth ≠ P.depth - n → c ∉ l := by
        intro c cn hc hne hcl
        obtain ⟨cn', b1, b2⟩ := (l3 c).1 hcl
        obtain rfl := getElem?_inj hc b1
        exact hne b2
      have hgt : P.depth - n < nd.depth := by
        have : nd.depth ≠ P.depth - n := by
          intro e
          exact hj ((l3 j).2 ⟨nd, g1, e⟩)
        omega
      refine BRec.transfer (hnot j hj) ?_ (I.brec j nd g1 (by omega))
      intro nd0 cs h0 hcs c hc
      obtain rfl := getElem?_inj g1 h0
      obtain ⟨_, cn, _, _, _, _, c1, _, _, c4⟩ := W'.child_facts g1 hcs hc
      rw [stOf_congr (hnot c (hnl c cn c1 (by omega)))]

theorem backward_loop {negInf : S} (hbot : ∀ x, negInf ≤ x) {P : Part α (TBSt R S)} (W : WF P) :
    ∀ n, n ≤ P.depth → ∃ Q, (List.range n).foldlM (backF negInf) P = .ok Q ∧ BackInv P Q n
  | 0, _ => ⟨P, rfl, OnlyB.refl P, fun _ _ h _ => h, fun j nd hj h => by
      have := W.depth_le j nd hj; omega⟩
  | n + 1, hn => by
    obtain ⟨Q, h1, I⟩ := backward_loop hbot W n (by omega)
    obtain ⟨Q', h2, I'⟩ := backF_step hbot W hn I
    refine ⟨Q', ?_, I'⟩
    rw [List.range_succ, List.foldlM_append, h1]
    simp only [List.foldlM_cons, List.foldlM_nil, bind, Except.bind, h2]
    rfl

/-- **`backward`**: on a well-formed tree it never raises, changes B-values only, does not
touch the root, and establishes the B-recursion at every non-root node. -/
theorem backward_spec {negInf : S} (hbot : ∀ x, negInf ≤ x) {P : Part α (TBSt R S)} (W : WF P) :
    ∃ Q, backward negInf P = .ok Q ∧ OnlyB P Q ∧ Q.nodes[0]? = P.nodes[0]? ∧
      ∀ v, 0 < v → BRec Q v := by
  obtain ⟨Q, h1, I⟩ := backward_loop hbot W P.depth (Nat.le_refl _)
  refine ⟨Q, by rw [backward_eq]; exact h1, I.onlyB, ?_, fun v hv nd hnd => ?_⟩
  · obtain ⟨r, hr, hr0, _⟩ := W.root
    rw [hr]; exact I.keep 0 r hr (by omega)
  · have W' : WF Q := I.onlyB.skel.wf W
    have := W'.depth_pos_of_pos hv hnd
    exact I.brec v nd hnd (by omega) nd hnd

end TBB
end PyXAB
