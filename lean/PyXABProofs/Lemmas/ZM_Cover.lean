/-
  Preservation of the invariant `Cover` by `init` and by the two branches of `receive`.
-/
import PyXABProofs.Lemmas.ZM_Recv

set_option linter.unusedSectionVars false

namespace PyXAB
namespace ZM
open Zooming _root_.PyXAB.Tree

variable {α R S : Type} [Field α] [LinearOrder α] [IsStrictOrderedRing α]

/-- One legal geometric expansion of a leaf in a well-formed tree whose leaves tile `root`:
it succeeds, keeps both invariants, the new cells are valid boxes and cover the split cell. -/
theorem mk_facts {root : Box α} {P : Part α Unit} (W : WF P) (hT : Tiles (leafBoxes P) root)
    {p : Nat} {nd : Node α Unit} {d : Draw α} (hp : P.nodes[p]? = some nd)
    (hleaf : nd.children = none) (hdl : DrawOKLen P.kind (dimn P) d)
    (hd : DrawOK P.kind nd.box d) :
    ∃ P', P.makeChildren () p (decide (nd.depth ≥ P.depth)) d = .ok P' ∧ WF P' ∧
      Step P P' () p nd ∧ Tiles (leafBoxes P') root ∧
      (∀ j cn, P'.nodes[P.nodes.length + j]? = some cn → Box.Valid cn.box) ∧
      (∀ x, Box.Mem nd.box x →
        ∃ j cn, j < K P ∧ P'.nodes[P.nodes.length + j]? = some cn ∧ Box.Mem cn.box x) := by
  obtain ⟨P', m, W', St⟩ := makeChildren_WF_step W () hp hleaf rfl hdl
  obtain ⟨hT', hk⟩ := tiles_step hT hp hleaf hd m
  obtain ⟨hnodes, _⟩ := makeChildren_nodes hp m
  have kid : ∀ j, P'.nodes[P.nodes.length + j]? = (Part.newKids P.kind p nd () d)[j]? := by
    intro j
    rw [hnodes, List.getElem?_append_right (by simp)]
    simp
  have hlen : (Part.newKids P.kind p nd () d).length = K P := by
    have h1 := St.len
    rw [hnodes] at h1
    simp only [List.length_append, List.length_set] at h1
    omega
  refine ⟨P', m, W', St, hT', ?_, ?_⟩
  · intro j cn hcn
    rw [kid] at hcn
    have := newKids_getElem?_box hcn
    exact (hk.1 _ (List.mem_of_getElem? this)).2
  · intro x hx
    obtain ⟨c, hc, hcx⟩ := (hk.2.1 x).1 hx
    obtain ⟨j, hj⟩ := List.mem_iff_getElem?.1 hc
    have hjl : j < (Part.newKids P.kind p nd () d).length := by
      have := lt_length_of_getElem? hj
      rw [← newKids_boxes P.kind p nd () d, List.length_map] at this
      exact this
    refine ⟨j, (Part.newKids P.kind p nd () d)[j], by omega, ?_, ?_⟩
    · rw [kid]; exact List.getElem?_eq_getElem hjl
    · have := newKids_getElem?_box (List.getElem?_eq_getElem hjl)
      rw [hj] at this
      rw [← Option.some.inj this]; exact hcx

/-! ### crediting the pulled arm does not touch the invariant -/

omit [Field α] [IsStrictOrderedRing α] in
theorem cover_set_same {root : Box α} {s s' : Zooming α S} (hC : Cover root s) {i : Nat}
    {a a1 : Arm α S} (ha : s.arms[i]? = some a) (h1 : a1.cell = a.cell) (h2 : a1.pt = a.pt)
    (hP : s'.P = s.P) (hA : s'.arms = s.arms.set i a1) : Cover root s' := by
  have hi : i < s.arms.length := lt_length_of_getElem? ha
  have hcells : s'.arms.map (·.cell) = s.arms.map (·.cell) := by
    rw [hA]
    apply List.ext_getElem?
    intro j
    by_cases hj : j = i
    · subst hj
      obtain ⟨_, rfl⟩ := List.getElem?_eq_some_iff.1 ha
      simp [hi, h1]
    · simp [List.getElem?_set_ne (Ne.symm hj)]
  refine ⟨hP ▸ hC.wf, hP ▸ hC.root_box, hP ▸ hC.tiles, ?_, ?_, hcells ▸ hC.nodup⟩
  · intro b hb
    rw [hA] at hb
    rw [hP]
    rcases ListAux.mem_set_imp hb with rfl | hb
    · rw [h1, h2]; exact hC.arm_leaf a (List.mem_of_getElem? ha)
    · exact hC.arm_leaf b hb
  · intro c nd hl
    rw [hP] at hl
    obtain ⟨b, hb, hbc⟩ := hC.leaf_arm c nd hl
    have : c ∈ s'.arms.map (·.cell) := by
      rw [hcells]; exact List.mem_map.2 ⟨b, hb, hbc⟩
    obtain ⟨b', hb', hbc'⟩ := List.mem_map.1 this
    exact ⟨b', hb', hbc'⟩

/-! ### the refinement step -/

omit [Field α] [IsStrictOrderedRing α] in
/-- Two positions of `arms` with the same cell are equal. -/
theorem Cover.cell_inj {root : Box α} {s : Zooming α S} (hC : Cover root s)
    {i j : Nat} {a b : Arm α S} (ha : s.arms[i]? = some a) (hb : s.arms[j]? = some b)
    (h : a.cell = b.cell) : i = j := by
  have hn := hC.nodup
  rw [List.nodup_iff_injective_getElem] at hn
  have hi : i < (s.arms.map (·.cell)).length := by
    simpa using lt_length_of_getElem? ha
  have hj : j < (s.arms.map (·.cell)).length := by
    simpa using lt_length_of_getElem? hb
  have := @hn ⟨i, hi⟩ ⟨j, hj⟩ (by
    simp only [List.getElem_map]
    obtain ⟨_, rfl⟩ := List.getElem?_eq_some_iff.1 ha
    obtain ⟨_, rfl⟩ := List.getElem?_eq_some_iff.1 hb
    exact h)
  exact congrArg Fin.val this

/-- The refined state satisfies the invariant: the pulled arm moves to a child `c` whose box
contains its point, and every other child `x` of the split cell gets the arm `newArm cfg P' x`
(`L` lists those children). -/
theorem cover_refine (cfg : ZoomCfg R S) {root : Box α} {s s' : Zooming α S}
    (hC : Cover root s) {i : Nat} {a a2 : Arm α S} {nd : Node α Unit}
    (ha : s.arms[i]? = some a) (hn : LeafAt s.P a.cell nd)
    {P' : Part α Unit} (W' : WF P') (St : Step s.P P' () a.cell nd)
    (hT' : Tiles (leafBoxes P') root)
    (hval : ∀ j cn, P'.nodes[s.P.nodes.length + j]? = some cn → Box.Valid cn.box)
    {c : Nat} {cn : Node α Unit} {L : List Nat}
    (hc : c ∈ List.range' s.P.nodes.length (K s.P)) (hcn : P'.nodes[c]? = some cn)
    (hmem : Box.Mem cn.box a.pt)
    (hL : L.Nodup) (hcL : c ∉ L)
    (hLsub : ∀ x ∈ L, x ∈ List.range' s.P.nodes.length (K s.P))
    (hLall : ∀ x ∈ List.range' s.P.nodes.length (K s.P), x = c ∨ x ∈ L)
    (h1 : a2.cell = c) (h2 : a2.pt = a.pt)
    (hP : s'.P = P') (hA : s'.arms = s.arms.set i a2 ++ L.map (newArm cfg P')) :
    Cover root s' := by
  have hi : i < s.arms.length := lt_length_of_getElem? ha
  have hp := hn.1
  have hpl : a.cell < s.P.nodes.length := lt_length_of_getElem? hp
  -- a new id `n + j`
  have newfacts : ∀ x, x ∈ List.range' s.P.nodes.length (K s.P) →
      ∃ xn, P'.nodes[x]? = some xn ∧ xn.children = none ∧ 1 ≤ xn.depth ∧ Box.Valid xn.box := by
    intro x hx
    rw [List.mem_range'_1] at hx
    obtain ⟨xn, x1, x2, _, _, x5, _⟩ := St.new (x - s.P.nodes.length) (by omega)
    have e : s.P.nodes.length + (x - s.P.nodes.length) = x := by omega
    refine ⟨xn, e ▸ x1, x5, by omega, hval _ xn x1⟩
  -- old arms other than the pulled one
  have oldarm : ∀ j b, j ≠ i → s.arms[j]? = some b →
      ∃ bn, LeafAt P' b.cell bn ∧ 1 ≤ bn.depth ∧ Box.Mem bn.box b.pt := by
    intro j b hji hb
    obtain ⟨bn, ⟨b1, b2⟩, b3, b4⟩ := hC.arm_leaf b (List.mem_of_getElem? hb)
    have hne : b.cell ≠ a.cell := fun h => hji (hC.cell_inj hb ha h)
    refine ⟨bn, ⟨?_, b2⟩, b3, b4⟩
    rw [St.old _ hne (lt_length_of_getElem? b1)]; exact b1
  have oldlt : ∀ b ∈ s.arms, b.cell < s.P.nodes.length := by
    intro b hb
    obtain ⟨bn, ⟨b1, _⟩, _⟩ := hC.arm_leaf b hb
    exact lt_length_of_getElem? b1
  refine ⟨hP ▸ W', ?_, hP ▸ hT', ?_, ?_, ?_⟩
  · rw [hP]
    obtain ⟨r, hr, hrb⟩ := hC.root_box
    obtain ⟨r', hr', _, _, _, hb, _⟩ := St.pres hp hr
    exact ⟨r', hr', hb.trans hrb⟩
  · intro b hb
    rw [hA, List.mem_append] at hb
    rw [hP]
    rcases hb with hb | hb
    · obtain ⟨j, hj⟩ := List.mem_iff_getElem?.1 hb
      by_cases hji : j = i
      · subst hji
        rw [List.getElem?_set_self hi] at hj
        obtain rfl := Option.some.inj hj
        obtain ⟨xn, x1, x2, x3, _⟩ := newfacts c hc
        obtain rfl := getElem?_inj x1 hcn
        rw [h1, h2]
        exact ⟨xn, ⟨x1, x2⟩, x3, hmem⟩
      · rw [List.getElem?_set_ne (Ne.symm hji)] at hj
        exact oldarm j b hji hj
    · obtain ⟨x, hx, rfl⟩ := List.mem_map.1 hb
      obtain ⟨xn, x1, x2, x3, x4⟩ := newfacts x (hLsub x hx)
      refine ⟨xn, ⟨x1, x2⟩, x3, ?_⟩
      show Box.Mem xn.box (newArm cfg P' x).pt
      simp only [newArm, x1]
      exact C02.cpoint_mem _ x4
  · intro x xn hl
    rw [hP] at hl
    rw [hA]
    obtain ⟨l1, l2⟩ := hl
    rcases St.inv hp l1 with ⟨y, y1, _, _, _, _, _, y2, y3⟩ | ⟨j, hj, rfl, _⟩
    · have hxp : x ≠ a.cell := by
        intro h
        have := y3 h
        rw [l2] at this; cases this
      obtain ⟨b, hb, hbc⟩ := hC.leaf_arm x y ⟨y1, (y2 hxp).symm.trans l2⟩
      obtain ⟨j, hj⟩ := List.mem_iff_getElem?.1 hb
      have hji : j ≠ i := by
        rintro rfl
        obtain rfl := getElem?_inj hj ha
        exact hxp hbc.symm
      refine ⟨b, List.mem_append_left _ (List.mem_iff_getElem?.2 ⟨j, ?_⟩), hbc⟩
      rw [List.getElem?_set_ne (Ne.symm hji)]; exact hj
    · rcases hLall (s.P.nodes.length + j) (by rw [List.mem_range'_1]; omega) with e | e
      · refine ⟨a2, List.mem_append_left _ (List.mem_iff_getElem?.2 ⟨i, ?_⟩), h1.trans e.symm⟩
        rw [List.getElem?_set_self hi]
      · exact ⟨newArm cfg P' _, List.mem_append_right _ (List.mem_map.2 ⟨_, e, rfl⟩), rfl⟩
  · rw [hA, List.map_append, List.map_map]
    have e : ((fun x : Arm α S => x.cell) ∘ newArm cfg P') = id := rfl
    rw [e, List.map_id, List.nodup_append]
    have hcge : s.P.nodes.length ≤ c := by rw [List.mem_range'_1] at hc; omega
    refine ⟨?_, hL, ?_⟩
    · rw [List.map_set]
      obtain ⟨e1, e2⟩ := split_at (l := s.arms.map (·.cell)) (p := i) (x := a.cell)
        (by simp [ha])
      have hn0 := hC.nodup
      rw [e1, List.nodup_middle, List.nodup_cons] at hn0
      rw [e2, List.nodup_middle, List.nodup_cons, h1]
      refine ⟨?_, hn0.2⟩
      intro hmem'
      have : c ∈ s.arms.map (·.cell) := by
        rw [e1]; simp only [List.mem_append, List.mem_cons] at hmem' ⊢; tauto
      obtain ⟨b, hb, hbc⟩ := List.mem_map.1 this
      have := oldlt b hb
      omega
    · intro x hx y hy hxy
      subst hxy
      have hyge : s.P.nodes.length ≤ x := by
        have := hLsub x hy; rw [List.mem_range'_1] at this; omega
      rw [List.map_set] at hx
      rcases ListAux.mem_set_imp hx with rfl | hx
      · exact hcL (h1 ▸ hy)
      · obtain ⟨b, hb, hbc⟩ := List.mem_map.1 hx
        have := oldlt b hb
        omega

end ZM
end PyXAB
