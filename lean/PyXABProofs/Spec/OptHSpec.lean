/-
  Spec-level definitions for the *optimism of the traversed path* of the tree bandits T-HOO and
  HCT / VHCT (`Props/HOOOptimism.lean`).  Nothing in this file is proved.

  * `OPTH.KidsTile P`: for every split cell of the arena `P`, the ids in its child list are
    cells of `P` and their boxes tile the box of the cell (`Tiles` of `Spec/Geometry.lean`);
    `OPTH.TInv k root P`: the geometric invariant of the tree of a run on the domain `root` —
    every cell is a valid sub-box of `root` (`TT.DomInv`), the root cell is `root`, and
    `KidsTile`;
  * `OPTH.Optimistic P xstar fstar`: every cell of `P` whose closed box contains `xstar` has
    U-value `≥ fstar` (the high-probability event of the regret analysis, as a hypothesis on the
    state);
  * `OPTH.BOptimistic P xstar fstar` (conclusion 1): every non-root cell whose closed box contains
    `xstar` has B-value `≥ fstar`;
  * `OPTH.PathOptimistic P path fstar` (conclusion 2): every cell of `path` has U-value `≥ fstar`
    and, unless it is the root, B-value `≥ fstar`;
  * `OPTH.HOORunFit`, `OPTH.HCTRunFit`: the reachable states `TBB.HOORun` / `TBB.HCTRun` of
    `Spec/TBIndex.lean` (rounds `pull; receive`, one well-formed draw per `receive`) with, in
    addition, the NumPy guarantee for the draws: the first draw offered to `init` fits the domain
    and the first draw offered to each `receive` fits the box of the pulled cell (`TT.HeadFits`,
    `TT.SplitFits` of `Spec/TotalSpec.lean`: `DrawOK`, i.e. random split points lie in the
    interval being split).  For the deterministic partition classes this adds nothing
    (`HOORunFit.of_det` in `Lemmas/OPTH_Run.lean`).
-/
import PyXABProofs.Spec.TotalSpec
import PyXABProofs.Spec.TBIndex

namespace PyXAB
namespace OPTH
open Tree

/-! ### Geometry: children tile their parent -/
section geo
variable {α σ : Type}

/-- For every split cell, the listed children are cells of the arena and their boxes tile the
box of the cell. -/
def KidsTile [LE α] [LT α] (P : Part α σ) : Prop :=
  ∀ (p : Nat) (nd : Node α σ) (cs : List Nat), P.nodes[p]? = some nd → nd.children = some cs →
    (∀ c ∈ cs, c < P.nodes.length) ∧ Tiles (cs.map (TT.boxOf P)) nd.box

/-- The geometric invariant of the tree of a run on the domain `root`. -/
structure TInv [LE α] [LT α] (k : Kind) (root : Box α) (P : Part α σ) : Prop where
  dom : TT.DomInv k root P
  root_box : ∃ r, P.nodes[0]? = some r ∧ r.box = root
  kids : KidsTile P

end geo

/-! ### Optimism -/
section opt
variable {α R S : Type}

/-- **Optimistic state**: every cell whose closed box contains `xstar` has U-value `≥ fstar`. -/
def Optimistic [LE α] [LE S] (P : Part α (TBSt R S)) (xstar : List α) (fstar : S) : Prop :=
  ∀ (v : Nat) (nd : Node α (TBSt R S)), P.nodes[v]? = some nd → Box.Mem nd.box xstar →
    fstar ≤ nd.st.u

/-- Conclusion (1): every non-root cell whose closed box contains `xstar` has B-value `≥ fstar`
(the B-value of the root is never written by `updateBackwardTree` and never read). -/
def BOptimistic [LE α] [LE S] (P : Part α (TBSt R S)) (xstar : List α) (fstar : S) : Prop :=
  ∀ (v : Nat) (nd : Node α (TBSt R S)), 0 < v → P.nodes[v]? = some nd → Box.Mem nd.box xstar →
    fstar ≤ nd.st.b

/-- Conclusion (2): every cell of `path` is a cell of `P` with U-value `≥ fstar` and, unless it
is the root (id 0), B-value `≥ fstar`. -/
def PathOptimistic [LE S] (P : Part α (TBSt R S)) (path : List Nat) (fstar : S) : Prop :=
  ∀ p ∈ path, ∃ nd, P.nodes[p]? = some nd ∧ fstar ≤ nd.st.u ∧ (0 < p → fstar ≤ nd.st.b)

end opt

/-! ### Runs with admissible draws -/
section runs
variable {α R S : Type} [Add α] [Sub α] [Mul α] [Div α] [OfNat α 2] [NatCast α] [LE α]
variable [LinearOrder S] [Inhabited S] [Inhabited R]

/-- `TBB.HOORun` with admissible draws. -/
inductive HOORunFit (cfg : HOOCfg R S) (k : Kind) (root : Box α) : HOO α R S → Prop
  | init {ds ds' : List (Draw α)} {s : HOO α R S} :
      (∀ d ∈ ds, DrawOKLen k root.length d) → TT.HeadFits k root root ds →
      HOO.init cfg k root ds = .ok (s, ds') → HOORunFit cfg k root s
  | round {s s1 s2 : HOO α R S} {v : Nat} {r : R} {d : Draw α} {ds ds' : List (Draw α)} :
      HOORunFit cfg k root s → HOO.pull s = .ok (s1, v) →
      DrawOKLen s1.P.kind (dimn s1.P) d → TT.SplitFits k root s1.P v (d :: ds) →
      HOO.receive cfg s1 r (d :: ds) = .ok (s2, ds') → HOORunFit cfg k root s2

/-- `TBB.HCTRun` (without the ghost time stamps) with admissible draws. -/
inductive HCTRunFit (cfg : HCTCfg R S) (k : Kind) (root : Box α) : HCT α R S → Prop
  | init {ds ds' : List (Draw α)} {s : HCT α R S} :
      (∀ d ∈ ds, DrawOKLen k root.length d) → TT.HeadFits k root root ds →
      HCT.init cfg k root ds = .ok (s, ds') → HCTRunFit cfg k root s
  | round {s s1 s2 : HCT α R S} {v : Nat} {r : R} {d : Draw α} {ds ds' : List (Draw α)} :
      HCTRunFit cfg k root s → HCT.pull cfg s = .ok (s1, v) →
      DrawOKLen s1.P.kind (dimn s1.P) d → TT.SplitFits k root s1.P v (d :: ds) →
      HCT.receive cfg s1 r (d :: ds) = .ok (s2, ds') → HCTRunFit cfg k root s2

end runs

end OPTH
end PyXAB
