/-
  Spec-level definitions for StroquOOL (model: `PyXABModel/Model/StroquOOL.lean`):
  * the named sub-blocks of `pull` (`pull_eq : pull = …` holds by `rfl`);
  * closed forms of the three folds (`refreshP`, `clearP`, `pickLast`);
  * the state invariant `Inv`, the frame relation `Ext`, the ghost history and the credit
    invariant `Credit`, reachability `Reach`, and the documented ask/tell loop `runRounds`.
-/
import Mathlib.Order.Defs.LinearOrder
import PyXABModel.Model.StroquOOL
import PyXABProofs.Spec.Tree

set_option linter.unusedSectionVars false

namespace PyXAB
namespace SK
open Tree StroquOOL

variable {α R S : Type}

/-! ### Views -/

/-- the stored `mean` field of cell `c` (`d` for a dangling id) -/
def meanAt (d : S) (P : Part α (SkSt R S)) (c : Nat) : S :=
  match P.nodes[c]? with
  | some nd => nd.st.mean
  | none => d

/-- the payload of cell `c` -/
def stAt (P : Part α (SkSt R S)) (c : Nat) : Option (SkSt R S) := (P.nodes[c]?).map (·.st)

/-- the rewards credited to `id` by a history of (cell id, reward) pairs, in order -/
def hist (H : List (Nat × R)) (id : Nat) : List R :=
  (H.filter (fun e => decide (e.1 = id))).map (·.2)

/-- all draws offered to a `pull` are well-formed for the partition -/
def DrawsOK (P : Part α (SkSt R S)) (ds : List (Draw α)) : Prop :=
  ∀ d ∈ ds, DrawOKLen P.kind (dimn P) d

/-- `v` is the LAST entry of `cands` (in list order) whose score `f` is maximal: entries before
its position are `≤`, entries after it are `<` (so the position is the last occurrence). -/
def IsLastMax [LE S] [LT S] (f : Nat → S) (cands : List (Option Nat)) (v : Nat) : Prop :=
  ∃ l1 l2, cands = l1 ++ some v :: l2 ∧ (∀ c, some c ∈ l1 → f c ≤ f v) ∧
    (∀ c, some c ∈ l2 → f c < f v)

section model
variable [LE S] [DecidableLE S]

/-! ### Closed forms of the folds -/

/-- the mean that `compMean` stores for cell `c` -/
def cmean (cfg : SkCfg R S) (P : Part α (SkSt R S)) (c : Nat) : S :=
  match P.nodes[c]? with
  | some nd => (compMean cfg nd.st).mean
  | none => cfg.negInf

/-- refresh the `mean` of exactly the cells listed (as `some id`) in `cands` -/
def refreshP (cfg : SkCfg R S) (P : Part α (SkSt R S)) (cands : List (Option Nat)) :
    Part α (SkSt R S) :=
  { P with nodes := P.nodes.mapIdx (fun j nd =>
      if some j ∈ cands then { nd with st := compMean cfg nd.st } else nd) }

/-- empty the reward list of exactly the cells listed (as `some id`) in `cands` -/
def clearP (P : Part α (SkSt R S)) (cands : List (Option Nat)) : Part α (SkSt R S) :=
  { P with nodes := P.nodes.mapIdx (fun j nd =>
      if some j ∈ cands then { nd with st := { nd.st with rewards := [] } } else nd) }

/-- "keep the last maximal one": the selection loop of `get_last_point` over scores `f` -/
def pickLast (f : Nat → S) : List (Option Nat) → S × Option Nat → S × Option Nat
  | [], acc => acc
  | none :: l, acc => pickLast f l acc
  | some c :: l, acc => if acc.1 ≤ f c then pickLast f l (f c, some c) else pickLast f l acc

/-- the loop body of `lastPoint` -/
def lpStep (cfg : SkCfg R S) (acc : Part α (SkSt R S) × S × Option Nat) (c : Option Nat) :
    Except Err (Part α (SkSt R S) × S × Option Nat) :=
  match c with
  | none => .error .noneDeref
  | some id =>
    let (P, best, mx) := acc
    match P.nodes[id]? with
    | none => .error .badId
    | some nd =>
      let st' := compMean cfg nd.st
      let P' := P.modifySt id (fun _ => st')
      if best ≤ st'.mean then .ok (P', st'.mean, some id) else .ok (P', best, mx)

/-- the reset loop body of `buildCandidates` -/
def rsStep (P : Part α (SkSt R S)) (c : Option Nat) : Except Err (Part α (SkSt R S)) :=
  match c with
  | none => .error .noneDeref
  | some id => .ok (P.modifySt id (fun st => { st with rewards := [] }))

/-- the candidate for exponent `p`: last cell of `chosen` with `≥ 2^p` evaluations and maximal
stored mean -/
def candFor (cfg : SkCfg R S) (s : StroquOOL α R S) (p : Nat) : Option Nat :=
  (s.chosen.foldl (fun (acc : S × Option Nat) id =>
    match s.P.nodes[id]? with
    | none => acc
    | some nd =>
      if nd.st.visited ≥ 2 ^ p then
        if acc.1 ≤ nd.st.mean then (nd.st.mean, some id) else acc
      else acc) (cfg.negInf, none)).2

/-- the candidate list built at the start of the cross-validation stage -/
def candList (cfg : SkCfg R S) (s : StroquOOL α R S) : List (Option Nat) :=
  (List.range (cfg.pmax + 1)).map (candFor cfg s)

theorem lastPoint_eq (cfg : SkCfg R S) (s : StroquOOL α R S) :
    lastPoint cfg s = (do
      let (P, _, mx) ← s.candidate.foldlM (lpStep cfg) (s.P, cfg.negInf, none)
      match mx with
      | none => .error .noneDeref
      | some id => return ({ s with P := P }, id)) := rfl

theorem buildCandidates_eq (cfg : SkCfg R S) (s : StroquOOL α R S) :
    buildCandidates cfg s = (do
      let P ← (candList cfg s).foldlM rsStep s.P
      return { s with candidate := candList cfg s, P := P }) := rfl

end model

section blocks
variable [Add α] [Sub α] [Mul α] [Div α] [OfNat α 2] [NatCast α]
variable [LE S] [DecidableLE S] [Inhabited S] [Inhabited R]

/-! ### The sub-blocks of `pull` -/

/-- `make_children(m, newlayer)` followed by `chosen += children[0], children[1]` -/
def expandAt (cfg : SkCfg R S) (s : StroquOOL α R S) (m : Nat) (nl : Bool) (ds : List (Draw α)) :
    Except Err (StroquOOL α R S × List (Draw α)) := do
  let (P', ds') ← s.P.makeChildrenD (st0 cfg) m nl ds
  let (a, b) ← twoKids P' m
  pure ({ s with P := P', chosen := s.chosen ++ [a, b] }, ds')

/-- state change when the second child of the root gets its last evaluation -/
def leaveRoot (cfg : SkCfg R S) (s : StroquOOL α R S) : StroquOOL α R S :=
  { s with timeStamp := 2 * cfg.hmax, currDepth := 1, currP := resetP cfg.hmax 1 }

/-- the depth-0 block -/
def rootPart (cfg : SkCfg R S) (s : StroquOOL α R S) (time : Nat) (ds : List (Draw α)) :
    Except Err (StroquOOL α R S × List (Draw α) × Option Nat) :=
  if s.currDepth = 0 then do
    let (s, ds) ← (if s.P.isLeaf 0 then expandAt cfg s 0 (decide (0 ≥ s.P.depth)) ds
      else pure (s, ds))
    let (a, b) ← twoKids s.P 0
    if time ≤ cfg.hmax then pure ({ s with curr := a }, ds, some a)
    else if time ≤ 2 * cfg.hmax then
      let s := if time = 2 * cfg.hmax then leaveRoot cfg s else s
      pure ({ s with curr := b }, ds, some b)
    else pure (s, ds, none)
  else pure (s, ds, none)

/-- the scan-and-expand block (runs when `eval` is set) -/
def evalPart (cfg : SkCfg R S) (s : StroquOOL α R S) (p : Nat) (ds : List (Draw α)) :
    Except Err (StroquOOL α R S × List (Draw α)) :=
  if s.eval then
    match s.P.layers[s.currDepth]? with
    | none => .error .indexError
    | some layer =>
      let (P1, mx) := scanLayer cfg (2 ^ p) layer s.P cfg.negInf s.maxNode
      let s := { s with P := P1, maxNode := mx, eval := false }
      match mx with
      | none => .error .noneDeref
      | some m =>
        if s.P.isLeaf m then expandAt cfg s m (decide (s.currDepth ≥ s.P.depth)) ds
        else pure (s, ds)
  else pure (s, ds)

/-- state change when the second child of `m` gets its last evaluation: `m` is marked opened,
the exponent decreases, and the depth advances when the exponent is exhausted -/
def advance (cfg : SkCfg R S) (s : StroquOOL α R S) (m p : Nat) : StroquOOL α R S :=
  let s1 := { s with timeStamp := s.timeStamp + 2 ^ (p + 1), currP := s.currP - 1,
                     P := s.P.modifySt m (fun st => { st with opened := true }), eval := true }
  if s1.currP < 0 then
    { s1 with currDepth := s1.currDepth + 1, currP := resetP cfg.hmax (s1.currDepth + 1) }
  else s1

/-- hand out a child of `maxNode`, or end -/
def handOut (cfg : SkCfg R S) (s : StroquOOL α R S) (p time : Nat) (ds : List (Draw α)) :
    Except Err (StroquOOL α R S × List (Draw α) × Nat) :=
  match s.maxNode with
  | none => .error .noneDeref
  | some m =>
    if time ≤ s.timeStamp + 2 ^ p then do
      let (a, _) ← twoKids s.P m
      return ({ s with curr := a }, ds, a)
    else if time ≤ s.timeStamp + 2 ^ (p + 1) then do
      let s1 := if time = s.timeStamp + 2 ^ (p + 1) then advance cfg s m p else s
      let (_, b) ← twoKids s1.P m
      return ({ s1 with curr := b }, ds, b)
    else finish cfg s ds

/-- the exploration stage (`currDepth ≤ hmax`) -/
def searchPart (cfg : SkCfg R S) (s : StroquOOL α R S) (time : Nat) (ds : List (Draw α)) :
    Except Err (StroquOOL α R S × List (Draw α) × Nat) := do
  let (s, ds, ret) ← rootPart cfg s time ds
  match ret with
  | some id => return (s, ds, id)
  | none =>
    if s.currP ≥ 0 then do
      let (s1, ds) ← evalPart cfg s s.currP.toNat ds
      handOut cfg s1 s.currP.toNat time ds
    else finish cfg s ds

/-- the cross-validation stage (`currDepth > hmax`), candidates already built -/
def crossOut (cfg : SkCfg R S) (s : StroquOOL α R S) (time : Nat) (ds : List (Draw α)) :
    Except Err (StroquOOL α R S × List (Draw α) × Nat) :=
  if s.currLoc < s.candidate.length then
    if time ≤ s.timeStamp + cfg.hmax then
      match s.candidate[s.currLoc]? with
      | some (some c) =>
        let s1 := { s with curr := c }
        let s2 := if time = s.timeStamp + cfg.hmax then
          { s1 with timeStamp := s.timeStamp + cfg.hmax, currLoc := s.currLoc + 1 } else s1
        return (s2, ds, c)
      | _ => .error .noneDeref
    else finish cfg s ds
  else finish cfg s ds

def crossPart (cfg : SkCfg R S) (s : StroquOOL α R S) (time : Nat) (ds : List (Draw α)) :
    Except Err (StroquOOL α R S × List (Draw α) × Nat) := do
  let s ← (if s.candidate.isEmpty then buildCandidates cfg s else pure s)
  crossOut cfg s time ds

theorem pull_eq (cfg : SkCfg R S) (s : StroquOOL α R S) (time : Nat) (ds : List (Draw α)) :
    pull cfg s time ds =
      if s.currDepth ≤ cfg.hmax then searchPart cfg { s with iteration := time } time ds
      else crossPart cfg { s with iteration := time } time ds := rfl

end blocks

/-! ### Invariant, frames, ghost history -/

/-- the cell `m` exists and has been expanded -/
def Expd {σ : Type} (P : Part α σ) (m : Nat) : Prop :=
  ∃ nd cs, P.nodes[m]? = some nd ∧ nd.children = some cs

/-- `P'` extends `P` keeping the statistics: old cells keep `visited` and `rewards` (and stay
expanded if they were), new cells are unvisited, kind and dimension are those of `P`. -/
structure Ext (P P' : Part α (SkSt R S)) : Prop where
  kind : P'.kind = P.kind
  dimn : dimn P' = dimn P
  len : P.nodes.length ≤ P'.nodes.length
  old : ∀ (i : Nat) (nd : Node α (SkSt R S)), P.nodes[i]? = some nd →
    ∃ nd', P'.nodes[i]? = some nd' ∧ nd'.st.visited = nd.st.visited ∧ nd'.st.rewards = nd.st.rewards
  new : ∀ (i : Nat) (nd' : Node α (SkSt R S)), P.nodes.length ≤ i → P'.nodes[i]? = some nd' →
    nd'.st.visited = 0 ∧ nd'.st.rewards = []
  exp : ∀ m, Expd P m → Expd P' m

/-- The state invariant (between any two calls of `pull` / `receive`, arity 2):
the tree is well-formed, `chosen` lists ALL non-root cells in creation order (every expansion
files both children), `maxNode` is an expanded cell, candidates are evaluated cells and `curr`
is a valid id. -/
structure Inv (s : StroquOOL α R S) : Prop where
  wf : WF s.P
  ar : K s.P = 2
  mx : ∀ m, s.maxNode = some m → Expd s.P m
  ch : s.chosen = List.range' 1 (s.P.nodes.length - 1)
  cd : ∀ c, some c ∈ s.candidate → c ∈ s.chosen
  cur : s.curr < s.P.nodes.length

/-- What one `pull` does to the statistics: `visited` never changes; `rewards` is emptied for
exactly the `some id` entries of the candidate list at the moment it is built (the only moment
`candidate` goes from `[]` to non-`[]`), and unchanged otherwise; new cells are unvisited. -/
structure PullFrame (s s' : StroquOOL α R S) : Prop where
  kind : s'.P.kind = s.P.kind
  dimn : dimn s'.P = dimn s.P
  len : s.P.nodes.length ≤ s'.P.nodes.length
  old : ∀ (i : Nat) (nd : Node α (SkSt R S)), s.P.nodes[i]? = some nd →
    ∃ nd', s'.P.nodes[i]? = some nd' ∧ nd'.st.visited = nd.st.visited ∧
      nd'.st.rewards = if s.candidate = [] ∧ some i ∈ s'.candidate then [] else nd.st.rewards
  new : ∀ (i : Nat) (nd' : Node α (SkSt R S)), s.P.nodes.length ≤ i → s'.P.nodes[i]? = some nd' →
    nd'.st.visited = 0 ∧ nd'.st.rewards = []
  cand : s.candidate ≠ [] → s'.candidate = s.candidate

/-- update of the ghost `resetAt` by a `pull` from `s` to `s'` with `n` rounds in the history -/
def resetAt' (s s' : StroquOOL α R S) (n : Nat) (ra : Option Nat) : Option Nat :=
  if s.candidate = [] ∧ s'.candidate ≠ [] then some n else ra

/-- The credit invariant for the ghost history `H` (returned id, reward) of the rewards received
before the end and the ghost `resetAt` (length of `H` when the candidates were built):
`visited` counts the rounds, `rewards` lists their rewards in order — for a candidate, only
those received since the candidates were built. -/
structure Credit (s : StroquOOL α R S) (H : List (Nat × R)) (ra : Option Nat) : Prop where
  valid : ∀ e ∈ H, e.1 < s.P.nodes.length
  ra_none : ra = none → s.candidate = []
  ra_le : ∀ k, ra = some k → k ≤ H.length
  visited : ∀ (id : Nat) (nd : Node α (SkSt R S)), s.P.nodes[id]? = some nd →
    nd.st.visited = (hist H id).length
  rewards : ∀ (id : Nat) (nd : Node α (SkSt R S)), s.P.nodes[id]? = some nd →
    nd.st.rewards = if some id ∈ s.candidate then hist (H.drop (ra.getD 0)) id else hist H id

section reach
variable [Add α] [Sub α] [Mul α] [Div α] [OfNat α 2] [NatCast α]
variable [LE S] [DecidableLE S] [Inhabited S] [Inhabited R]

/-- States reachable from `init` by any interleaving of `pull` (with well-formed draws) and
`receive`, together with the ghost history and `resetAt`. -/
inductive Reach (cfg : SkCfg R S) (k : Kind) (domain : Box α) :
    StroquOOL α R S → List (Nat × R) → Option Nat → Prop
  | init : Reach cfg k domain (init cfg k domain) [] none
  | pull {s s' : StroquOOL α R S} {H : List (Nat × R)} {ra : Option Nat} {t : Nat}
      {ds ds' : List (Draw α)} {v : Nat} :
      Reach cfg k domain s H ra → DrawsOK s.P ds → pull cfg s t ds = .ok (s', ds', v) →
      Reach cfg k domain s' H (resetAt' s s' H.length ra)
  | recv {s : StroquOOL α R S} {H : List (Nat × R)} {ra : Option Nat} (r : R) :
      Reach cfg k domain s H ra →
      Reach cfg k domain (receive s r) (if s.ended then H else H ++ [(s.curr, r)]) ra

/-- The documented ask/tell loop with the ghost bookkeeping: each round is `pull(time)` then
`receive(reward)`; the pair (returned id, reward) is recorded unless the run has ended. -/
def runRounds (cfg : SkCfg R S) : StroquOOL α R S → List (Nat × R) → Option Nat →
    List (Nat × R × List (Draw α)) → Except Err (StroquOOL α R S × List (Nat × R) × Option Nat)
  | s, H, ra, [] => .ok (s, H, ra)
  | s, H, ra, (t, r, ds) :: rest =>
    match pull cfg s t ds with
    | .error e => .error e
    | .ok (s1, _, v) =>
      runRounds cfg (receive s1 r) (if s1.ended then H else H ++ [(v, r)])
        (resetAt' s s1 H.length ra) rest

def run (cfg : SkCfg R S) (k : Kind) (domain : Box α) (inputs : List (Nat × R × List (Draw α))) :
    Except Err (StroquOOL α R S × List (Nat × R) × Option Nat) :=
  runRounds cfg (init cfg k domain) [] none inputs

/-- every draw of every round is well-formed -/
def InputsOK (k : Kind) (n : Nat) (inputs : List (Nat × R × List (Draw α))) : Prop :=
  ∀ x ∈ inputs, ∀ d ∈ x.2.2, DrawOKLen k n d

instance (k : Kind) (n : Nat) (inputs : List (Nat × R × List (Draw α))) :
    Decidable (InputsOK k n inputs) := by
  unfold InputsOK; infer_instance

end reach

/-- cell `id` exists and has at least `2^p` evaluations -/
def eligible (P : Part α (SkSt R S)) (p id : Nat) : Bool :=
  match P.nodes[id]? with
  | some nd => decide (nd.st.visited ≥ 2 ^ p)
  | none => false

/-- `chosen` with the non-eligible cells masked out -/
def eligibles (s : StroquOOL α R S) (p : Nat) : List (Option Nat) :=
  s.chosen.map (fun id => if eligible s.P p id then some id else none)

/-! ### After the end -/

/-- Configurations in which `pull` at any time `≥ t` goes straight to `finish`: in the
exploration stage (depth `≥ 1`) the exponent is exhausted or both children of `maxNode` have had
their evaluations; in the cross-validation stage all candidates have been re-evaluated (or the
time budget of the current one is over). -/
def Stuck (cfg : SkCfg R S) (s : StroquOOL α R S) (t : Nat) : Prop :=
  (0 < s.currDepth ∧ s.currDepth ≤ cfg.hmax ∧
    (s.currP < 0 ∨ (s.eval = false ∧ s.maxNode.isSome = true ∧
      s.timeStamp + 2 ^ (s.currP.toNat + 1) < t))) ∨
  (cfg.hmax < s.currDepth ∧ s.candidate ≠ [] ∧
    (s.candidate.length ≤ s.currLoc ∨ s.timeStamp + cfg.hmax < t))

section afterEnd
variable [LE S] [DecidableLE S]

/-- the run has ended in a `Stuck` configuration and `v` is its up-to-date recommendation -/
def AfterEnd (cfg : SkCfg R S) (s : StroquOOL α R S) (t v : Nat) : Prop :=
  Stuck cfg s t ∧ s.ended = true ∧ lastPoint cfg s = .ok (s, v)

end afterEnd

end SK
end PyXAB
