/-
  Spec-level definitions for property C11 (the `Zooming` algorithm):
  the boxes of the leaves of a partition tree, trees grown by legal geometric expansions,
  the invariant `Cover`, the index of an arm, the phase schedule, the side conditions on the
  draws consumed by `receive`, runs of the ask/tell loop with their ghost history, and the
  UNFIXED child-assignment rule `assignOld` used by the counterexample.
  Nothing in this file is proved.
-/
import PyXABModel.Model.Zooming
import PyXABProofs.Spec.Tree
import PyXABProofs.Spec.Geometry

namespace PyXAB
namespace ZM

/-! ### Leaves of the partition tree and their boxes -/
section tree
variable {α σ : Type}

/-- node value is a leaf -/
def isLeafNode (nd : Node α σ) : Bool := nd.children.isNone

/-- The boxes of the leaves of the arena, in creation order. -/
def leafBoxes (P : Part α σ) : List (Box α) := (P.nodes.filter isLeafNode).map (·.box)

/-- `LeafAt P c nd`: `c` is a valid id, `nd` is the node stored there and it is a leaf. -/
def LeafAt (P : Part α σ) (c : Nat) (nd : Node α σ) : Prop :=
  P.nodes[c]? = some nd ∧ nd.children = none

variable [Add α] [Sub α] [Mul α] [Div α] [OfNat α 2] [NatCast α] [LE α]

/-- Trees grown from `Part.init k root s0` by `make_children` calls on leaves, with the
`newlayer` flag of the PyXAB callers and draws which are well-formed (`DrawOKLen`) and satisfy
what NumPy guarantees for the box being split (`DrawOK`). -/
inductive Grown (k : Kind) (root : Box α) (s0 : σ) : Part α σ → Prop
  | init : Grown k root s0 (Part.init k root s0)
  | mk {P P' : Part α σ} {p : Nat} {nd : Node α σ} {d : Draw α} :
      Grown k root s0 P → P.nodes[p]? = some nd → nd.children = none →
      Tree.DrawOKLen P.kind (Tree.dimn P) d → DrawOK P.kind nd.box d →
      P.makeChildren s0 p (decide (nd.depth ≥ P.depth)) d = .ok P' → Grown k root s0 P'

end tree

/-! ### The invariant of `Zooming` -/
section cover
variable {α S : Type}

/-- **The invariant.**  `root` is the user's domain.
* `wf`: the C03 tree invariant;
* `root_box`: the root cell is the domain;
* `tiles`: the boxes of the leaves tile the domain;
* `arm_leaf` (1a): every arm's cell is a valid id of a leaf of depth ≥ 1 whose (closed) box
  contains the arm's point;
* `leaf_arm` (1b, onto): every leaf of the arena is the cell of some arm;
* `nodup` (1b, one-to-one): no two arms (positions of `arms`) share a cell. -/
structure Cover [LE α] [LT α] (root : Box α) (s : Zooming α S) : Prop where
  wf : Tree.WF s.P
  root_box : ∃ r, s.P.nodes[0]? = some r ∧ r.box = root
  tiles : Tiles (leafBoxes s.P) root
  arm_leaf : ∀ a ∈ s.arms, ∃ nd, LeafAt s.P a.cell nd ∧ 1 ≤ nd.depth ∧ Box.Mem nd.box a.pt
  leaf_arm : ∀ c nd, LeafAt s.P c nd → ∃ a ∈ s.arms, a.cell = c
  nodup : (s.arms.map (·.cell)).Nodup

/-- The box of cell `c` (empty box for a dangling id). -/
def cellBox (P : Part α Unit) (c : Nat) : Box α :=
  match P.nodes[c]? with
  | some nd => nd.box
  | none => []

end cover

/-! ### Index, phase schedule, refinement condition -/
section sched
variable {α R S : Type}

/-- `mean + 2*sqrt(8*phase/(2+pulls))` of an arm in phase `ph`. -/
def idx (cfg : ZoomCfg R S) (ph : Nat) (a : Arm α S) : S := cfg.indexOf a.avg ph a.pulls

/-- the phase after the phase update of the round which is being completed -/
def phaseAfter (s : Zooming α S) : Nat := if s.time + 1 ≥ s.nextEnd then s.phase + 1 else s.phase

/-- the end of the phase after the phase update -/
def nextEndAfter (s : Zooming α S) : Nat :=
  if s.time + 1 ≥ s.nextEnd then s.nextEnd + 2 ^ (s.phase + 1) else s.nextEnd

/-- the pulled arm after crediting the reward `r` -/
def credit (cfg : ZoomCfg R S) (a : Arm α S) (r : R) : Arm α S :=
  { a with avg := cfg.upd a.avg a.pulls r, pulls := a.pulls + 1 }

/-- The state after crediting the reward `r` to the pulled arm `a` (position `i`) and updating
clock and phase: the state `receive` returns when no cell is refined. -/
def credited (cfg : ZoomCfg R S) (s : Zooming α S) (i : Nat) (a : Arm α S) (r : R) :
    Zooming α S :=
  { s with arms := s.arms.set i (credit cfg a r), time := s.time + 1, phase := phaseAfter s,
           nextEnd := nextEndAfter s }

/-- The state `receive` returns when the cell of the pulled arm is refined into `P2`, the arm
moves to child `c` and the arms `fresh` are appended. -/
def refined (cfg : ZoomCfg R S) (s : Zooming α S) (i : Nat) (a : Arm α S) (r : R)
    (P2 : Part α Unit) (c : Nat) (fresh : List (Arm α S)) : Zooming α S :=
  { credited cfg s i a r with
    P := P2, arms := s.arms.set i { credit cfg a r with cell := c } ++ fresh }

/-- the refinement test of `receive_reward`: phase AFTER the phase update, pull count AFTER
crediting, depth of the arm's cell. -/
def refineCond (cfg : ZoomCfg R S) (s : Zooming α S) (a : Arm α S) (nd : Node α Unit) : Bool :=
  cfg.refine (phaseAfter s) (a.pulls + 1) nd.depth

/-- Side condition on the draws handed to `receive`: IF the pulled arm's cell is refined, the
stream is non-empty and its first draw is well-formed and satisfies the NumPy guarantees for
the box of that cell. -/
def RecvDrawsOK [LE α] (cfg : ZoomCfg R S) (s : Zooming α S) (ds : List (Draw α)) : Prop :=
  ∀ i a nd, s.best = some i → s.arms[i]? = some a → s.P.nodes[a.cell]? = some nd →
    refineCond cfg s a nd = true →
    ∃ d ds', ds = d :: ds' ∧ Tree.DrawOKLen s.P.kind (Tree.dimn s.P) d ∧ DrawOK s.P.kind nd.box d

/-- `negInf` is below the index of every active arm (true when `negInf` is a bottom element;
stated per state so that it is satisfiable over `ℚ`). -/
def NegInfLe [LE S] (cfg : ZoomCfg R S) (s : Zooming α S) : Prop :=
  ∀ a ∈ s.arms, cfg.negInf ≤ idx cfg s.phase a

end sched

/-! ### Runs of the ask/tell loop and their ghost history -/
section run
variable {α R S : Type} [Add α] [Sub α] [Mul α] [Div α] [OfNat α 2] [NatCast α]
variable [LE α] [DecidableLE α] [LE S] [DecidableLE S]

/-- `Run cfg k domain s H`: `s` is reached from `Zooming.init` by `H.length` successful rounds
`pull; receive r`; `H` lists, oldest first, the position (in `arms`) of the pulled arm and the
reward of each round.  The draws of each call are arbitrary. -/
inductive Run (cfg : ZoomCfg R S) (k : Kind) (domain : Box α) :
    Zooming α S → List (Nat × R) → Prop
  | init {ds ds' : List (Draw α)} {s : Zooming α S} :
      Zooming.init cfg k domain ds = .ok (s, ds') → Run cfg k domain s []
  | round {s s1 s2 : Zooming α S} {H : List (Nat × R)} {i : Nat} {pt : List α} {r : R}
      {ds ds' : List (Draw α)} :
      Run cfg k domain s H → Zooming.pull cfg s = .ok (s1, i, pt) →
      Zooming.receive cfg s1 r ds = .ok (s2, ds') → Run cfg k domain s2 (H ++ [(i, r)])

/-- A run whose draws satisfy the NumPy guarantees and in which `negInf` is below every
index. -/
inductive GoodRun (cfg : ZoomCfg R S) (k : Kind) (domain : Box α) :
    Zooming α S → List (Nat × R) → Prop
  | init {d : Draw α} {ds ds' : List (Draw α)} {s : Zooming α S} :
      Tree.DrawOKLen k domain.length d → DrawOK k domain d →
      Zooming.init cfg k domain (d :: ds) = .ok (s, ds') → GoodRun cfg k domain s []
  | round {s s1 s2 : Zooming α S} {H : List (Nat × R)} {i : Nat} {pt : List α} {r : R}
      {ds ds' : List (Draw α)} :
      GoodRun cfg k domain s H → NegInfLe cfg s → Zooming.pull cfg s = .ok (s1, i, pt) →
      RecvDrawsOK cfg s1 ds →
      Zooming.receive cfg s1 r ds = .ok (s2, ds') → GoodRun cfg k domain s2 (H ++ [(i, r)])

/-- the rewards credited to the arm at position `j`, oldest first -/
def rewardsOf (H : List (Nat × R)) (j : Nat) : List R :=
  (H.filter (fun e => e.1 == j)).map (·.2)

omit [Add α] [Sub α] [Mul α] [Div α] [OfNat α 2] [NatCast α] [LE α] [DecidableLE α] [LE S]
  [DecidableLE S] in
/-- **Exactness of the statistics** w.r.t. the ghost history `H` of a run:
* `time`: the clock counts the rounds;
* `valid`: every pulled position is a position of `arms` (positions are stable: arms are only
  appended);
* `pulls`: the pull count of the arm at position `j` is the number of rounds in which `j` was
  the pulled position;
* `total`: the pull counts sum to the number of rounds;
* `zero`: a never-pulled arm has mean `cfg.zero`. -/
structure Stats (cfg : ZoomCfg R S) (s : Zooming α S) (H : List (Nat × R)) : Prop where
  time : s.time = H.length
  valid : ∀ e ∈ H, e.1 < s.arms.length
  pulls : ∀ j a, s.arms[j]? = some a → a.pulls = (rewardsOf H j).length
  total : (s.arms.map (·.pulls)).sum = H.length
  zero : ∀ a ∈ s.arms, a.pulls = 0 → a.avg = cfg.zero

omit [Add α] [Sub α] [Mul α] [Div α] [OfNat α 2] [NatCast α] [LE α] [DecidableLE α] [LE S]
  [DecidableLE S] in
/-- **Phase schedule**: phases are numbered from 1, phase `p` ends at
`nextEnd = Σ_{j=1..p} 2^j = 2^(p+1) - 2`, and the current phase is the one containing the
clock: `2^p - 2 ≤ time < 2^(p+1) - 2`. -/
structure PhaseInv (s : Zooming α S) : Prop where
  pos : 1 ≤ s.phase
  nextEnd : s.nextEnd = 2 ^ (s.phase + 1) - 2
  lo : 2 ^ s.phase - 2 ≤ s.time
  hi : s.time < s.nextEnd

end run

/-! ### The UNFIXED assignment rule (for the counterexample) -/
section old
variable {α R S : Type} [Add α] [Div α] [OfNat α 2] [LE α] [DecidableLE α]

/-- The rule of the unfixed code: EVERY child containing the arm's point takes the arm (the
last one wins), and only the children not containing the point get a fresh arm. -/
def assignOld (cfg : ZoomCfg R S) (P : Part α Unit) (pt : List α) :
    List Nat → Option Nat → List (Arm α S) → Option Nat × List (Arm α S)
  | [], cell, fresh => (cell, fresh)
  | c :: cs, cell, fresh =>
    match P.nodes[c]? with
    | none => assignOld cfg P pt cs cell fresh
    | some nd =>
      if Zooming.contains nd.box pt then assignOld cfg P pt cs (some c) fresh
      else assignOld cfg P pt cs cell (fresh ++ [Zooming.newArm cfg P c])

end old

end ZM
end PyXAB
