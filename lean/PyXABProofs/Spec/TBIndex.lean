/-
  Spec-level definitions for property C05 (the index/B-value discipline of the tree bandits
  T-HOO, HCT and VHCT):

  * `BRec`      – the B-value recursion at one node,
  * `LastMax`   – "maximal among its siblings, the last one in list order among the maximal",
  * `GreedyPath`– the path stored by `pull`: root, greedy steps, stop condition,
  * `tsStep`    – ghost time stamps of the lazily refreshed U-values of HCT / VHCT,
  * the invariants `HOOInv`, `HCTInv` (+ `HCTU` for the U-formula) and the post-`pull`
    predicates `HOOReady`, `HCTReady`,
  * `HOORun`, `HCTRun` – the states reachable from `init` by rounds `pull; receive`.
-/
import PyXABModel.Model.TreeBandit
import PyXABProofs.Spec.Tree
import Mathlib.Order.Defs.LinearOrder

namespace PyXAB
namespace TBB

variable {α R S : Type}

/-! ## B-values -/

/-- `BRec P v`: the B-value of node `v` satisfies the recursion: `B = U` at a leaf, and
`B = min(U, M)` at an inner node where `M` is the maximum of the children's B-values
(`M` bounds all of them and is attained). -/
def BRec [LinearOrder S] [Inhabited S] [Inhabited R] (P : Part α (TBSt R S)) (v : Nat) : Prop :=
  ∀ nd, P.nodes[v]? = some nd →
    (nd.children = none → nd.st.b = nd.st.u) ∧
    (∀ cs, nd.children = some cs →
      ∃ M, nd.st.b = min nd.st.u M ∧ (∀ c ∈ cs, (P.stOf c).b ≤ M) ∧ ∃ c ∈ cs, (P.stOf c).b = M)

/-- `c` is a child of maximal score, and the last such child in list order (the Python loop
`if child.b >= maxchild.b: maxchild = child` keeps the later one on ties). -/
structure LastMax [LinearOrder S] (b : Nat → S) (cs : List Nat) (c : Nat) : Prop where
  mem : c ∈ cs
  max : ∀ c' ∈ cs, b c' ≤ b c
  last : ∃ pre post, cs = pre ++ c :: post ∧ ∀ x ∈ post, b x < b c

/-- The path stored by `pull`: starts at the root, ends at the pulled node `v`, each step goes
to the last B-maximal child, no node before the end satisfies the stop condition, `v` does. -/
structure GreedyPath [LinearOrder S] [Inhabited S] [Inhabited R] (P : Part α (TBSt R S))
    (stop : Node α (TBSt R S) → Prop) (path : List Nat) (v : Nat) : Prop where
  head : path.head? = some 0
  last : path.getLast? = some v
  step : ∀ i p c, path[i]? = some p → path[i + 1]? = some c →
    ∃ nd cs, P.nodes[p]? = some nd ∧ nd.children = some cs ∧
      LastMax (fun j => (P.stOf j).b) cs c
  go : ∀ i p, path[i]? = some p → i + 1 < path.length →
    ∃ nd, P.nodes[p]? = some nd ∧ ¬ stop nd
  stop : ∃ nd, P.nodes[v]? = some nd ∧ stop nd

/-- `Q` is `P` up to the `tau` fields (VHCT's `pull` recomputes them): same skeleton, same
`count/rewards/mean/u/b/var` everywhere. -/
structure SameButTau (P Q : Part α (TBSt R S)) : Prop where
  kind : Q.kind = P.kind
  layers : Q.layers = P.layers
  depth : Q.depth = P.depth
  len : Q.nodes.length = P.nodes.length
  node : ∀ (i : Nat) (nd : Node α (TBSt R S)), P.nodes[i]? = some nd →
    ∃ t, Q.nodes[i]? = some { nd with st := { nd.st with tau := t } }

/-! ## T-HOO -/

section hoo
variable [Add α] [Sub α] [Mul α] [Div α] [OfNat α 2] [NatCast α]
variable [LinearOrder S] [Inhabited S] [Inhabited R]

/-- stop condition of T-HOO's descent: a leaf -/
def stopHOO (nd : Node α (TBSt R S)) : Prop := nd.children = none

/-- Invariant of T-HOO (holds after `init` and after every round). -/
structure HOOInv (cfg : HOOCfg R S) (s : HOO α R S) : Prop where
  wf : Tree.WF s.P
  /-- the root has been split (by `init`) -/
  root_split : ∃ r cs, s.P.nodes[0]? = some r ∧ r.children = some cs
  /-- unvisited cells have infinite U and infinite B -/
  unvisited : ∀ (v : Nat) (nd : Node α (TBSt R S)), s.P.nodes[v]? = some nd → nd.st.count = 0 →
    nd.st.u = cfg.inf ∧ nd.st.b = cfg.inf
  /-- visited cells: `mean` and `u` are the formulas of the current statistics -/
  visited : ∀ (v : Nat) (nd : Node α (TBSt R S)), s.P.nodes[v]? = some nd → 0 < nd.st.count →
    nd.st.mean = cfg.meanOf nd.st.rewards nd.st.count ∧
    nd.st.u = cfg.uOf (cfg.meanOf nd.st.rewards nd.st.count) nd.st.count nd.depth
  /-- only visited cells are split -/
  inner_visited : ∀ (v : Nat) (nd : Node α (TBSt R S)), s.P.nodes[v]? = some nd → 0 < v → nd.children ≠ none →
    0 < nd.st.count
  /-- the B-recursion at every non-root cell -/
  brec : ∀ v, 0 < v → BRec s.P v

/-- State after `pull`: the invariant plus a stored greedy path ending in `v`. -/
structure HOOReady (cfg : HOOCfg R S) (s : HOO α R S) (v : Nat) : Prop where
  inv : HOOInv cfg s
  path : ∃ path, s.path = some path ∧ GreedyPath s.P stopHOO path v

/-- States reachable from `init` by rounds `pull; receive`; one well-formed draw
is available per `receive` (at most one expansion happens per round). -/
inductive HOORun (cfg : HOOCfg R S) (k : Kind) (domain : Box α) : HOO α R S → Prop
  | init {ds ds' : List (Draw α)} {s : HOO α R S} :
      (∀ d ∈ ds, Tree.DrawOKLen k domain.length d) →
      HOO.init cfg k domain ds = .ok (s, ds') → HOORun cfg k domain s
  | round {s s1 s2 : HOO α R S} {v : Nat} {r : R} {d : Draw α} {ds ds' : List (Draw α)} :
      HOORun cfg k domain s → HOO.pull s = .ok (s1, v) →
      Tree.DrawOKLen s1.P.kind (Tree.dimn s1.P) d →
      HOO.receive cfg s1 r (d :: ds) = .ok (s2, ds') → HOORun cfg k domain s2

end hoo

/-! ## HCT / VHCT -/

section hct
variable [Add α] [Sub α] [Mul α] [Div α] [OfNat α 2] [NatCast α]
variable [LinearOrder S] [Inhabited S] [Inhabited R]

/-- The threshold `tau_h(t)` that `pull`/`receive` compare the pull count of `nd` with:
HCT: the entry of `self.tau_h` at the depth of the node; VHCT: the node's own `tau`. -/
def thr (cfg : HCTCfg R S) (s : HCT α R S) (nd : Node α (TBSt R S)) : S :=
  if cfg.variance then nd.st.tau else s.tauH[nd.depth]?.getD default

/-- stop condition of the descent of HCT / VHCT: a leaf, or pulled fewer times than the
current threshold -/
def stopHCT (cfg : HCTCfg R S) (s : HCT α R S) (nd : Node α (TBSt R S)) : Prop :=
  nd.children = none ∨ cfg.countGE nd.st.count (thr cfg s nd) = false

/-- What the U-value of a visited node must be when its last refresh happened at the round
with counter `t` (`var` is the stored variance: `var0` for HCT, `varOf rewards` for VHCT). -/
def HCTU (cfg : HCTCfg R S) (P : Part α (TBSt R S)) (ts : Nat → Nat) : Prop :=
  ∀ (v : Nat) (nd : Node α (TBSt R S)), P.nodes[v]? = some nd → 0 < nd.st.count →
    nd.st.u = cfg.uOf (cfg.dtOne (tPlus (ts v))) nd.depth
      (cfg.meanOf nd.st.rewards nd.st.count) nd.st.count nd.st.var

/-- Invariant of HCT / VHCT (holds after `init` and after every round). -/
structure HCTInv (cfg : HCTCfg R S) (s : HCT α R S) : Prop where
  wf : Tree.WF s.P
  root_split : ∃ r cs, s.P.nodes[0]? = some r ∧ r.children = some cs
  iter_pos : 1 ≤ s.iteration
  /-- unvisited cells have infinite U -/
  unvisited : ∀ (v : Nat) (nd : Node α (TBSt R S)), s.P.nodes[v]? = some nd → nd.st.count = 0 → nd.st.u = cfg.inf
  mean_ok : ∀ (v : Nat) (nd : Node α (TBSt R S)), s.P.nodes[v]? = some nd → 0 < nd.st.count →
    nd.st.mean = cfg.meanOf nd.st.rewards nd.st.count
  /-- the stored variance: VHCT `varOf rewards` once visited, else the initial `var0` -/
  var_ok : ∀ (v : Nat) (nd : Node α (TBSt R S)), s.P.nodes[v]? = some nd →
    nd.st.var = if cfg.variance = true ∧ 0 < nd.st.count then cfg.varOf nd.st.rewards else cfg.var0
  brec : ∀ v, 0 < v → BRec s.P v

/-- State after `pull`: invariant, stored greedy path, thresholds in place. -/
structure HCTReady (cfg : HCTCfg R S) (s : HCT α R S) (v : Nat) : Prop where
  inv : HCTInv cfg s
  path : ∃ path, s.path = some path ∧ GreedyPath s.P (stopHCT cfg s) path v
  tauH_len : cfg.variance = false → s.tauH.length = s.P.depth + 1

/-- What `pull` does to the state (HCT / VHCT): nothing but thresholds and the path change. -/
structure HCTPulled (cfg : HCTCfg R S) (s s' : HCT α R S) (v : Nat) : Prop where
  same : SameButTau s.P s'.P
  iteration : s'.iteration = s.iteration
  /-- HCT: the arena is untouched and `tau_h` is recomputed for depths `1..depth` -/
  tauH_hct : cfg.variance = false → s'.P = s.P ∧
    s'.tauH = cfg.zero :: (List.range' 1 s.P.depth).map
      (cfg.tauH (cfg.dtHalf (tPlus s.iteration)))
  /-- VHCT: every node of depth `1..depth` gets its own recomputed threshold -/
  tau_vhct : cfg.variance = true → s'.tauH = s.tauH ∧
    ∀ (j : Nat) (nd : Node α (TBSt R S)), s'.P.nodes[j]? = some nd → 1 ≤ nd.depth →
      nd.st.tau = cfg.tauNode (cfg.dtHalf (tPlus s.iteration)) nd.depth nd.st.var
  path : ∃ path, s'.path = some path ∧ GreedyPath s'.P (stopHCT cfg s') path v

/-- Ghost time stamps: `ts v` = value of `iteration` (before the increment) at the last
computation of the U-value of `v`.  One `receive` at counter `it` in (post-`pull`) partition
`P` with pulled node `last`: the pulled node is always refreshed; when `it` is a power of two
(`it = tPlus it`) every visited node is. -/
def tsStep (it : Nat) (P : Part α (TBSt R S)) (last : Nat) (ts : Nat → Nat) : Nat → Nat :=
  fun v => if v = last then it
           else if it = tPlus it ∧ 0 < (P.stOf v).count then it else ts v

/-- States reachable from `init` by rounds `pull; receive`, with their ghost time stamps. -/
inductive HCTRun (cfg : HCTCfg R S) (k : Kind) (domain : Box α) :
    HCT α R S → (Nat → Nat) → Prop
  | init {ds ds' : List (Draw α)} {s : HCT α R S} (ts0 : Nat → Nat) :
      (∀ d ∈ ds, Tree.DrawOKLen k domain.length d) →
      HCT.init cfg k domain ds = .ok (s, ds') → HCTRun cfg k domain s ts0
  | round {s s1 s2 : HCT α R S} {ts : Nat → Nat} {v : Nat} {r : R} {d : Draw α}
      {ds ds' : List (Draw α)} :
      HCTRun cfg k domain s ts → HCT.pull cfg s = .ok (s1, v) →
      Tree.DrawOKLen s1.P.kind (Tree.dimn s1.P) d →
      HCT.receive cfg s1 r (d :: ds) = .ok (s2, ds') →
      HCTRun cfg k domain s2 (tsStep s1.iteration s1.P v ts)

end hct

end TBB
end PyXAB
