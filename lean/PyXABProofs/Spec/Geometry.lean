/-
  Specification-level vocabulary for the geometry of PyXAB partitions (property group C02).
  Everything here is a plain `Prop`-valued definition over the executable model
  `PyXABModel/Model/Box.lean`; nothing in this file is proved.
-/
import PyXABModel.Model.Box
import Mathlib.Data.List.Forall2

namespace PyXAB

section spec
variable {α : Type}

/-- closed interval membership -/
def Iv.Mem [LE α] (i : Iv α) (x : α) : Prop := i.lo ≤ x ∧ x ≤ i.hi

/-- open interval (interior) membership -/
def Iv.IntMem [LT α] (i : Iv α) (x : α) : Prop := i.lo < x ∧ x < i.hi

/-- `c ⊆ b` for intervals -/
def Iv.Subset [LE α] (c b : Iv α) : Prop := b.lo ≤ c.lo ∧ c.hi ≤ b.hi

/-- `lo ≤ hi` -/
def Iv.Valid [LE α] (i : Iv α) : Prop := i.lo ≤ i.hi

/-- The point `x` (a coordinate list) lies in the closed cell `b`: same number of coordinates and
every coordinate lies in the corresponding closed interval. -/
def Box.Mem [LE α] (b : Box α) (x : List α) : Prop := List.Forall₂ Iv.Mem b x

/-- The point `x` lies in the interior of the cell `b`. -/
def Box.IntMem [LT α] (b : Box α) (x : List α) : Prop := List.Forall₂ Iv.IntMem b x

/-- `c` is geometrically contained in `b`: same dimension, coordinatewise containment. -/
def Box.Subset [LE α] (c b : Box α) : Prop := List.Forall₂ Iv.Subset c b

/-- every interval of the cell has `lo ≤ hi` -/
def Box.Valid [LE α] (b : Box α) : Prop := ∀ iv ∈ b, Iv.Valid iv

/-- weakly increasing list: consecutive elements are `≤` -/
def Mono [LE α] : List α → Prop
  | a :: b :: rest => a ≤ b ∧ Mono (b :: rest)
  | _ => True

/-- `kids` is a tiling of `b`: every kid is a valid sub-cell of `b`, the kids cover exactly `b`,
and distinct kids (distinct *positions* of the list) have disjoint interiors. -/
def Tiles [LE α] [LT α] (kids : List (Box α)) (b : Box α) : Prop :=
  (∀ c ∈ kids, Box.Subset c b ∧ Box.Valid c) ∧
  (∀ x, Box.Mem b x ↔ ∃ c ∈ kids, Box.Mem c x) ∧
  kids.Pairwise (fun c c' => ¬ ∃ x, Box.IntMem c x ∧ Box.IntMem c' x)

/-- What NumPy guarantees about the random choices consumed by one `make_children` call.

* every class except `DimensionBinaryPartition` draws `dim = np.random.randint(0, d)`, hence
  `dim < d`;
* `RandomBinaryPartition` draws one `np.random.uniform(lo, hi)` point (the model only looks at
  the first element of `pts`), and it lies in `[lo, hi]`;
* `RandomKaryPartition` draws `K - 1` points and sorts them: together with the two end points
  they form a weakly increasing list.  End points are *included*: draws equal to `lo`, `hi` or
  to each other are allowed (degenerate children);
* for the two `K`-ary classes `1 ≤ K` (documented `K ≥ 2`). -/
def DrawOK [LE α] (k : Kind) (b : Box α) (d : Draw α) : Prop :=
  match k with
  | .binary => d.dim < b.length
  | .dimBinary => True
  | .randBinary => ∃ h : d.dim < b.length, ∃ s, d.pts.head? = some s ∧
      b[d.dim].lo ≤ s ∧ s ≤ b[d.dim].hi
  | .kary K => 1 ≤ K ∧ d.dim < b.length
  | .randKary K => 1 ≤ K ∧ ∃ h : d.dim < b.length, d.pts.length = K - 1 ∧
      Mono (b[d.dim].lo :: (d.pts ++ [b[d.dim].hi]))

end spec
end PyXAB
