/-
  Spec-level definitions for properties C12 / C07 (SequOOL): the documented ask/tell loop
  (`init`, then rounds of `pull` + `receive`), the history of handed-out cells, the ghost
  bookkeeping of "openings", and the invariant `Inv` which holds between rounds.

  Ghost facts used throughout (all proved, `Lemmas/SQ_*.lean`):
  * cell ids are creation order, children are created `K` at a time and handed out in creation
    order, so the list `chosen` of handed-out search cells is always `[1, 2, …, m]`;
  * the cells `m+1 … ` (if any) are the not-yet-handed-out children of the cell being opened.
-/
import Mathlib.Order.Defs.LinearOrder
import PyXABModel.Model.SequOOL
import PyXABProofs.Spec.Tree

namespace PyXAB
namespace SQ
open Tree

variable {α σ S : Type}

/-! ### Views of the arena -/

/-- the cell `id` has been expanded (has a child list) -/
def isExp (P : Part α σ) (id : Nat) : Bool :=
  match P.nodes[id]? with
  | some nd => nd.children.isSome
  | none => false

/-- number of expanded cells of depth `h` (= cells of depth `h` whose opening has started) -/
def expCount (P : Part α σ) (h : Nat) : Nat := ((P.layers[h]?).getD []).countP (isExp P)

/-- the cell `id` exists and its `opened` flag is not set -/
def isUnopened (P : Part α (SqSt S)) (id : Nat) : Bool :=
  match P.nodes[id]? with
  | some nd => !nd.st.opened
  | none => false

/-- the first observed reward of the cell `id` (`get_reward()`), if any -/
def firstRew (P : Part α (SqSt S)) (id : Nat) : Option S :=
  (P.nodes[id]?).bind (fun nd => nd.st.rewards.head?)

/-- `t` is, among the unopened cells of the list `l`, the last one whose first reward is
maximal: every unopened cell listed before `t` has a reward `≤`, every one after it `<`. -/
def IsArgmaxLast [LinearOrder S] (P : Part α (SqSt S)) (l : List Nat) (t : Nat) : Prop :=
  ∃ l1 l2 rt, l = l1 ++ t :: l2 ∧ isUnopened P t = true ∧ firstRew P t = some rt ∧
    (∀ id ∈ l1, isUnopened P id = true → ∀ r, firstRew P id = some r → r ≤ rt) ∧
    (∀ id ∈ l2, isUnopened P id = true → ∀ r, firstRew P id = some r → r < rt)

/-- `v` is the last cell of the list `l` whose first reward is maximal. -/
def IsMaxLast [LinearOrder S] (P : Part α (SqSt S)) (l : List Nat) (v : Nat) : Prop :=
  ∃ l1 l2 rv, l = l1 ++ v :: l2 ∧ firstRew P v = some rv ∧
    (∀ id ∈ l1, ∀ r, firstRew P id = some r → r ≤ rv) ∧
    (∀ id ∈ l2, ∀ r, firstRew P id = some r → r < rv)

/-- Inputs of a round: the draws offered to `pull` start with a well-formed draw (at most one
`make_children` happens per `pull`). -/
def HeadOK (k : Kind) (dimn : Nat) : List (Draw α) → Prop
  | [] => False
  | d :: _ => DrawOKLen k dimn d

instance (k : Kind) (n : Nat) (ds : List (Draw α)) : Decidable (HeadOK k n ds) :=
  match ds with
  | [] => inferInstanceAs (Decidable False)
  | d :: _ => inferInstanceAs (Decidable (DrawOKLen k n d))

/-- The inputs of a run: one reward and one list of draws per round. -/
def InputsOK (k : Kind) (dimn : Nat) (inputs : List (S × List (Draw α))) : Prop :=
  ∀ x ∈ inputs, HeadOK k dimn x.2

instance (k : Kind) (n : Nat) (inputs : List (S × List (Draw α))) :
    Decidable (InputsOK k n inputs) := by
  unfold InputsOK; infer_instance

section loop
variable [Add α] [Sub α] [Mul α] [Div α] [OfNat α 2] [NatCast α]
variable [LinearOrder S] [Inhabited S]

/-! ### The loop -/

/-- One round of the ask/tell loop: `pull(t)`, then `receive_reward(t, r)`; returns the new
state and the id of the handed-out cell. -/
def round (negInf : S) (s : SequOOL α S) (t : Nat) (r : S) (ds : List (Draw α)) :
    Except Err (SequOOL α S × Nat) :=
  match SequOOL.pull negInf s t ds with
  | .error e => .error e
  | .ok (s1, _, v) =>
    match SequOOL.receive s1 r with
    | .error e => .error e
    | .ok s2 => .ok (s2, v)

/-- The loop from round number `t` on: returns the final state and the history of
(handed-out cell id, reward). -/
def runRounds (negInf : S) : SequOOL α S → Nat → List (S × List (Draw α)) →
    Except Err (SequOOL α S × List (Nat × S))
  | s, _, [] => .ok (s, [])
  | s, t, (r, ds) :: rest =>
    match round negInf s t r ds with
    | .error e => .error e
    | .ok (s1, v) =>
      match runRounds negInf s1 (t + 1) rest with
      | .error e => .error e
      | .ok (s2, H) => .ok (s2, (v, r) :: H)

/-- Construction followed by the loop (rounds are numbered from 1). -/
def run (negInf : S) (k : Kind) (domain : Box α) (hmax : Nat)
    (inputs : List (S × List (Draw α))) : Except Err (SequOOL α S × List (Nat × S)) :=
  runRounds negInf (SequOOL.init k domain hmax) 1 inputs

/-! ### The invariant -/

/-- number of created but not yet handed-out cells: the remaining children of the cell which is
being opened (`op`: an opening is in progress) -/
def pend (s : SequOOL α S) (op : Bool) : Nat := if op then K s.P - s.loc else 0

/-- The invariant, parametrised by
* `op`: an opening is in progress, i.e. the cell selected at the current depth has been expanded
  and not all of its children have been handed out.  Between two `pull`s this is `loc > 0`;
  inside a `pull`, right after `make_children`, it holds with `loc = 0`;
* `mr`: the number of handed-out cells whose reward has been received (`mr = chosen.length`
  between rounds, `mr + 1 = chosen.length` between `pull` and `receive`). -/
structure Core (negInf : S) (op : Bool) (mr : Nat) (s : SequOOL α S) : Prop where
  /-- the tree invariant of C03 -/
  wf : WF s.P
  K_pos : 1 ≤ K s.P
  cd_le : s.currDepth ≤ s.hmax + 1
  /-- the layer of the current depth exists -/
  cd_le_depth : s.currDepth ≤ s.P.depth
  /-- no cell deeper than `hmax + 1` is ever created -/
  pdepth_le : s.P.depth ≤ s.hmax + 1
  loc_lt : s.loc < K s.P
  /-- the handed-out search cells, in order, are the ids `1, 2, …, m` -/
  chosen_eq : s.chosen = List.range' 1 s.chosen.length
  mr_le : mr ≤ s.chosen.length
  /-- the arena: root, handed-out cells, pending children of the cell being opened -/
  len : s.P.nodes.length = 1 + s.chosen.length + pend s op
  cd0 : s.currDepth = 0 → s.chosen.length = s.loc
  /-- every handed-out cell (whose reward arrived) has exactly one reward, the pending ones
  none -/
  rew : ∀ (i : Nat) (nd : Node α (SqSt S)), s.P.nodes[i]? = some nd →
    (1 ≤ i → i ≤ mr → nd.st.rewards.length = 1) ∧ (mr < i → nd.st.rewards = [])
  /-- a cell flagged `opened` is a search cell all of whose children have been handed out -/
  opened_ch : ∀ (i : Nat) (nd : Node α (SqSt S)), s.P.nodes[i]? = some nd →
    nd.st.opened = true →
    1 ≤ nd.depth ∧ ∃ cs, nd.children = some cs ∧ ∀ c ∈ cs, c ≤ s.chosen.length
  /-- expanded cells have depth `≤ hmax` and `≤` the current depth -/
  ch_depth : ∀ (i : Nat) (nd : Node α (SqSt S)) (cs : List Nat), s.P.nodes[i]? = some nd →
    nd.children = some cs → nd.depth ≤ s.hmax ∧ nd.depth ≤ s.currDepth
  /-- an expanded search cell is flagged `opened`, unless it is the cell being opened -/
  ch_opened : ∀ (i : Nat) (nd : Node α (SqSt S)) (cs : List Nat), s.P.nodes[i]? = some nd →
    nd.children = some cs → 1 ≤ nd.depth →
    nd.st.opened = true ∨
      (op = true ∧ cs = List.range' (1 + s.chosen.length - s.loc) (K s.P))
  /-- an opening is in progress: the cell `t` being opened has depth `currDepth`, exactly the
  first `loc` of its `K` children have been handed out, it is not flagged, and it is the cell
  which the scan of the current layer selects. -/
  opening : op = true → ∃ (t : Nat) (tn : Node α (SqSt S)), s.P.nodes[t]? = some tn ∧
    tn.depth = s.currDepth ∧ s.currDepth ≤ s.hmax ∧ s.loc ≤ s.chosen.length ∧
    tn.children = some (List.range' (1 + s.chosen.length - s.loc) (K s.P)) ∧
    (1 ≤ s.currDepth → tn.st.opened = false ∧ ∃ layer num,
      s.P.layers[s.currDepth]? = some layer ∧
      SequOOL.scan s.P layer 0 negInf none = .ok (num, some t))
  /-- while depth `currDepth` is being processed it contains an unopened cell -/
  unopened : 1 ≤ s.currDepth → s.currDepth ≤ s.hmax → ∃ layer id,
    s.P.layers[s.currDepth]? = some layer ∧ id ∈ layer ∧ isUnopened s.P id = true
  /-- the budget of the current depth: `hmax / currDepth` minus the number of completed
  openings of this depth (= expanded cells of this depth, not counting the cell being opened) -/
  budget : 1 ≤ s.currDepth → ∃ b, s.budget = some b ∧ (s.currDepth ≤ s.hmax →
    1 ≤ b ∧ b ≤ s.hmax / s.currDepth ∧
    expCount s.P s.currDepth + b = s.hmax / s.currDepth + (if op then 1 else 0))
  /-- the schedule was respected at the completed depths -/
  sched : ∀ h, 1 ≤ h → h < s.currDepth → expCount s.P h ≤ s.hmax / h

/-- The invariant between rounds (the reward of the last `pull` has been received). -/
def Inv (negInf : S) (s : SequOOL α S) : Prop :=
  Core negInf (decide (0 < s.loc)) s.chosen.length s

/-- The state between `pull` and `receive` of a round of the search phase: the cell handed out
last (`curr`, the id `chosen.length`) has no reward yet. -/
structure Mid (negInf : S) (s : SequOOL α S) : Prop where
  core : Core negInf (decide (0 < s.loc)) (s.chosen.length - 1) s
  pos : 1 ≤ s.chosen.length
  curr : s.curr = some s.chosen.length

/-- The cell which `pull` selects for opening in state `s`: the root at depth 0, otherwise the
last unopened cell of the current layer with maximal first reward. -/
def Selected (s : SequOOL α S) (tgt : Nat) : Prop :=
  (s.currDepth = 0 → tgt = 0) ∧
  (1 ≤ s.currDepth → ∃ layer, s.P.layers[s.currDepth]? = some layer ∧
    IsArgmaxLast s.P layer tgt)

/-- The documented effect of one `pull` of the search phase from the state `s` (between rounds)
to the state `s1`, handing out the cell `v`. -/
structure SearchPull (s s1 : SequOOL α S) (v : Nat) : Prop where
  /-- the handed-out cell is the next cell in creation order: never handed out before -/
  v_eq : v = s.chosen.length + 1
  chosen : s1.chosen = s.chosen ++ [v]
  curr : s1.curr = some v
  hmax : s1.hmax = s.hmax
  kind : s1.P.kind = s.P.kind
  dimn : dimn s1.P = dimn s.P
  /-- the cell `tgt` being opened: the selected cell of the current depth; `v` is its child
  number `loc`; the cell was a leaf when its opening started (`loc = 0`: `make_children` is
  called), afterwards no cell is created and its child list is kept; it is flagged `opened`
  exactly when its last child is handed out -/
  cell : ∃ (tgt : Nat) (tn : Node α (SqSt S)) (cs : List Nat),
    Selected s tgt ∧ s1.P.nodes[tgt]? = some tn ∧ tn.depth = s.currDepth ∧
    tn.children = some cs ∧ cs.length = K s.P ∧ cs[s.loc]? = some v ∧
    (s.loc = 0 → s.P.isLeaf tgt = true ∧ cs = List.range' s.P.nodes.length (K s.P)) ∧
    (0 < s.loc → s1.P.nodes.length = s.P.nodes.length ∧
      ∃ tn0, s.P.nodes[tgt]? = some tn0 ∧ tn0.children = some cs) ∧
    (1 ≤ s.currDepth → tn.st.opened = decide (s.loc + 1 = K s.P))
  /-- `pull` does not touch the reward lists nor the boxes; child lists, once created, are
  kept -/
  frame : ∀ (i : Nat) (nd : Node α (SqSt S)), s.P.nodes[i]? = some nd →
    ∃ nd', s1.P.nodes[i]? = some nd' ∧ nd'.st.rewards = nd.st.rewards ∧ nd'.box = nd.box ∧
      ∀ cs, nd.children = some cs → nd'.children = some cs
  /-- not the last child: the opening continues -/
  next : s.loc + 1 < K s.P →
    s1.loc = s.loc + 1 ∧ s1.currDepth = s.currDepth ∧ s1.budget = s.budget
  /-- last child of the root: depth 1 is entered with budget `hmax / 1` -/
  last0 : s.loc + 1 = K s.P → s.currDepth = 0 →
    s1.loc = 0 ∧ s1.currDepth = 1 ∧ s1.budget = some (s.hmax / 1)
  /-- last child of a search cell: the budget is decremented; the depth advances exactly when
  the budget reaches 0 or the opened cell was the last unopened cell of its depth -/
  last : s.loc + 1 = K s.P → 1 ≤ s.currDepth → s1.loc = 0 ∧
    ∃ b layer, s.budget = some b ∧ s.P.layers[s.currDepth]? = some layer ∧
      if b - 1 = 0 ∨ layer.countP (isUnopened s.P) = 1 then
        s1.currDepth = s.currDepth + 1 ∧ s1.budget = some (s.hmax / (s.currDepth + 1))
      else s1.currDepth = s.currDepth ∧ s1.budget = some (b - 1)

/-- The effect of `receive_reward(r)` when the cell handed out last is `c`: the reward is
appended to the reward list of `c`, nothing else changes. -/
def credit (s : SequOOL α S) (c : Nat) (r : S) : SequOOL α S :=
  { s with P := s.P.modifySt c (fun st => { st with rewards := st.rewards ++ [r] }) }

/-- The schedule is exhausted: every further `pull` returns the root cell. -/
def Exhausted (s : SequOOL α S) : Prop := s.hmax < s.currDepth

end loop
end SQ
end PyXAB
