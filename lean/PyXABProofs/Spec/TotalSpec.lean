/-
  Spec-level definitions for property C01 ("the documented loop never raises and every point
  handed out lies inside the user-supplied box").  Nothing in this file is proved.

  * `BoxInv root P`: EVERY cell of the arena (leaf or not) is a valid sub-box of `root` of the
    same dimension; `DomInv k root P` adds "the partition class is `k`";
  * `Keeps P P'`: every cell of `P` is still a cell of `P'`, with the same box (boxes are never
    rewritten, the arena only grows);
  * `PointOK root P v`: `v` is a cell of `P` and its representative point `Box.cpoint box`
    (what the Python `pull` returns) is a `d`-vector inside `root`;
  * `DrawFits k root b d`: the NumPy guarantee `DrawOK k b d` for the draw `d` used to split the
    cell with box `b` — required only if `b` is a valid sub-box of `root` (so that, for the
    three deterministic partition classes, it follows from `Tree.DrawOKLen` alone);
  * per algorithm, `GoodDraws`: along the documented loop every draw consumed by a
    `make_children` call fits the box of the cell being split.  The predicates follow the run:
    which cell is split by which draw depends on the rewards.
-/
import PyXABProofs.Spec.Geometry
import PyXABProofs.Spec.Tree
import PyXABProofs.Spec.TBRun
import PyXABProofs.Spec.SweepSpec
import PyXABProofs.Spec.SeqSpec
import PyXABProofs.Spec.ZoomSpec
import PyXABProofs.Spec.MetaSpec

namespace PyXAB
namespace TT

/-! ### Geometry of the arena -/
section geo
variable {α σ : Type}

/-- Every cell of the arena is a valid sub-box of `root`, of the dimension of `root`. -/
def BoxInv [LE α] (root : Box α) (P : Part α σ) : Prop :=
  ∀ (i : Nat) (nd : Node α σ), P.nodes[i]? = some nd →
    Box.Subset nd.box root ∧ Box.Valid nd.box ∧ nd.box.length = root.length

/-- `BoxInv` together with the partition class (the class fixes which draws are legal). -/
structure DomInv [LE α] (k : Kind) (root : Box α) (P : Part α σ) : Prop where
  kind : P.kind = k
  box : BoxInv root P

/-- Every cell of `P` is a cell of `P'` with the same box. -/
def Keeps (P P' : Part α σ) : Prop :=
  ∀ (i : Nat) (nd : Node α σ), P.nodes[i]? = some nd →
    ∃ nd', P'.nodes[i]? = some nd' ∧ nd'.box = nd.box

/-- The box of cell `v` (empty box for a dangling id). -/
def boxOf (P : Part α σ) (v : Nat) : Box α :=
  match P.nodes[v]? with
  | some nd => nd.box
  | none => []

/-- The point the Python `pull` returns for the cell `v`: `node.get_cpoint()`. -/
def ptOf [Add α] [Div α] [OfNat α 2] (P : Part α σ) (v : Nat) : List α := Box.cpoint (boxOf P v)

/-- `v` is a cell of `P` and its representative point is a `d`-vector inside `root`. -/
def PointOK [Add α] [Div α] [OfNat α 2] [LE α] (root : Box α) (P : Part α σ) (v : Nat) : Prop :=
  v < P.nodes.length ∧ Box.Mem root (ptOf P v) ∧ (ptOf P v).length = root.length

/-- The draw `d` satisfies the NumPy guarantees for splitting the cell with box `b`
(required only for valid sub-boxes of `root`). -/
def DrawFits [LE α] (k : Kind) (root b : Box α) (d : Draw α) : Prop :=
  Box.Valid b → Box.Subset b root → DrawOK k b d

/-- The first draw of the stream (the one a `make_children` call would consume) fits `b`. -/
def HeadFits [LE α] (k : Kind) (root b : Box α) : List (Draw α) → Prop
  | [] => True
  | d :: _ => DrawFits k root b d

/-- The first draw of the stream fits the box of the cell `p`. -/
def SplitFits [LE α] (k : Kind) (root : Box α) (P : Part α σ) (p : Nat) (ds : List (Draw α)) :
    Prop :=
  ∀ nd, P.nodes[p]? = some nd → HeadFits k root nd.box ds

/-- The partition classes whose children do not depend on random split points. -/
def Kind.Deterministic : Kind → Prop
  | .binary | .dimBinary | .kary _ => True
  | .randBinary | .randKary _ => False

/-- The `i`-th expansion event of a `pull` consumed the `i`-th draw of the stream offered to
that `pull`, and the draw fits the box of the expanded cell (in the tree just before the
expansion). -/
def EvDraws [LE α] {S : Type} (k : Kind) (root : Box α) :
    List (Draw α) → List (SW.Ev α σ S) → Prop
  | _, [] => True
  | [], _ :: _ => True
  | d :: ds, ev :: evs =>
    (∀ nd, ev.before.nodes[ev.id]? = some nd → DrawFits k root nd.box d) ∧ EvDraws k root ds evs

end geo

/-! ### Tree bandits -/

namespace HOO
variable {α R S : Type} [Add α] [Sub α] [Mul α] [Div α] [OfNat α 2] [NatCast α] [LE α]
variable [LE S] [DecidableLE S] [Max S] [Min S] [Inhabited S] [Inhabited R]

/-- In every round, the first draw offered to `receive` fits the box of the pulled cell (the
only cell `receive` may split). -/
def GoodDraws (cfg : HOOCfg R S) (k : Kind) (root : Box α) :
    HOO α R S → List (R × List (Draw α)) → Prop
  | _, [] => True
  | s, (r, ds) :: rest => ∀ s1 v, PyXAB.HOO.pull s = .ok (s1, v) →
      SplitFits k root s1.P v ds ∧
      ∀ s2 ds', PyXAB.HOO.receive cfg s1 r ds = .ok (s2, ds') → GoodDraws cfg k root s2 rest

end HOO

namespace HCT
variable {α R S : Type} [Add α] [Sub α] [Mul α] [Div α] [OfNat α 2] [NatCast α] [LE α]
variable [LE S] [DecidableLE S] [Max S] [Min S] [Inhabited S] [Inhabited R]

def GoodDraws (cfg : HCTCfg R S) (k : Kind) (root : Box α) :
    HCT α R S → List (R × List (Draw α)) → Prop
  | _, [] => True
  | s, (r, ds) :: rest => ∀ s1 v, PyXAB.HCT.pull cfg s = .ok (s1, v) →
      SplitFits k root s1.P v ds ∧
      ∀ s2 ds', PyXAB.HCT.receive cfg s1 r ds = .ok (s2, ds') → GoodDraws cfg k root s2 rest

end HCT

/-! ### Layer-sweep optimisers: the draws of the expansion events of `pullT` -/

namespace SOO
variable {α S : Type} [Add α] [Sub α] [Mul α] [Div α] [OfNat α 2] [NatCast α] [LE α]
variable [LinearOrder S] [Inhabited S]

def GoodDraws (negInf : S) (k : Kind) (root : Box α) : SOO α S → List (SW.Input α S) → Prop
  | _, [] => True
  | s, x :: rest => ∀ s1 ds1 v trs, PyXAB.SOO.pullT negInf s x.1 x.2.1 = .ok (s1, ds1, v, trs) →
      EvDraws k root x.2.1 trs.flatten ∧
      ∀ s2, PyXAB.SOO.receive s1 x.2.2 = .ok s2 → GoodDraws negInf k root s2 rest

end SOO

namespace DOO
variable {α S : Type} [Add α] [Sub α] [Mul α] [Div α] [OfNat α 2] [NatCast α] [LE α]
variable [LinearOrder S] [Inhabited S]

def GoodDraws (cfg : DOOCfg α S) (k : Kind) (root : Box α) : DOO α S → List (SW.Input α S) → Prop
  | _, [] => True
  | s, x :: rest => ∀ s1 ds1 v tr, PyXAB.DOO.pullT cfg s x.1 x.2.1 = .ok (s1, ds1, v, tr) →
      EvDraws k root x.2.1 tr ∧
      ∀ s2, PyXAB.DOO.receive s1 x.2.2 = .ok s2 → GoodDraws cfg k root s2 rest

end DOO

namespace StoSOO
variable {α R S : Type} [Add α] [Sub α] [Mul α] [Div α] [OfNat α 2] [NatCast α] [LE α]
variable [LinearOrder S] [Inhabited S] [Inhabited R]

def GoodDraws (cfg : StoCfg S R) (k : Kind) (root : Box α) :
    StoSOO α R S → List (SW.Input α R) → Prop
  | _, [] => True
  | s, x :: rest => ∀ s1 ds1 v tr, PyXAB.StoSOO.pullT cfg s x.1 x.2.1 = .ok (s1, ds1, v, tr) →
      EvDraws k root x.2.1 tr ∧
      ∀ s2, PyXAB.StoSOO.receive cfg s1 x.2.2 = .ok s2 → GoodDraws cfg k root s2 rest

end StoSOO

/-! ### SequOOL -/

namespace SQ
variable {α S : Type} [Add α] [Sub α] [Mul α] [Div α] [OfNat α 2] [NatCast α] [LE α]
variable [LinearOrder S] [Inhabited S]

/-- The cell which `SequOOL.pull` opens in state `s` (the first part of `pull`): the root at
depth 0, otherwise the cell selected by the scan of the current layer. -/
def targetOf (negInf : S) (s : SequOOL α S) : Option Nat :=
  if s.currDepth = 0 then
    match s.P.layers[0]? with
    | some (r :: _) => some r
    | _ => none
  else
    match s.P.layers[s.currDepth]? with
    | none => none
    | some layer =>
      match SequOOL.scan s.P layer 0 negInf none with
      | .ok (_, some m) => some m
      | _ => none

/-- In every round, IF the cell being opened is still a leaf (so `pull` splits it), the first
draw offered to `pull` fits its box. -/
def GoodDraws (negInf : S) (k : Kind) (root : Box α) :
    SequOOL α S → Nat → List (S × List (Draw α)) → Prop
  | _, _, [] => True
  | s, t, (r, ds) :: rest =>
    (∀ tgt nd, targetOf negInf s = some tgt → s.P.nodes[tgt]? = some nd → nd.children = none →
      HeadFits k root nd.box ds) ∧
    ∀ s1 ds1 v s2, SequOOL.pull negInf s t ds = .ok (s1, ds1, v) → SequOOL.receive s1 r = .ok s2 →
      GoodDraws negInf k root s2 (t + 1) rest

end SQ

/-! ### Wrappers (POO, GPO): a base learner whose proposals lie in the domain -/

section wrappers
variable {L α R Pt ρ : Type}

/-- The base learner keeps an invariant `LI` of its own state (established by `create`, kept by
`pull` and `receive`) under which every point it proposes satisfies `InDom`. -/
structure OpsInDom (ops : LearnerOps L α R Pt ρ) (LI : L → Prop) (InDom : Pt → Prop) : Prop where
  create : ∀ p ds l ds', ops.create p ds = .ok (l, ds') → LI l
  pull : ∀ l t l' pt, LI l → ops.pull l t = .ok (l', pt) → LI l' ∧ InDom pt
  receive : ∀ l t r ds l' ds', LI l → ops.receive l t r ds = .ok (l', ds') → LI l'

/-- Invariant of POO: every constructed learner satisfies the learner invariant. -/
def POOInv {S : Type} (LI : L → Prop) (s : POO L S) : Prop := ∀ l ∈ s.learners, LI l

/-- Invariant of GPO: the current learner satisfies the learner invariant, and `goodx`, `Vx`
only hold points proposed by learners. -/
structure GPOInv {S : Type} (LI : L → Prop) (InDom : Pt → Prop) (s : GPO L S Pt) : Prop where
  curr : ∀ l, s.curr = some l → LI l
  goodx : ∀ p, s.goodx = some p → InDom p
  vx : ∀ p ∈ s.Vx, InDom p

end wrappers

end TT
end PyXAB
