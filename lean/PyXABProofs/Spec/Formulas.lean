/-
  Published index / threshold formulas (written from the papers' pseudo-code and the documentation, not from the
  code), over any field with the transcendental functions left uninterpreted.  `Generated/Formulas.lean` contains
  what the REAL methods compute, traced symbolically on every run, and proves each equal to these.
-/
import Mathlib.Algebra.Field.Basic
import Mathlib.Tactic.Ring
namespace PyXAB.Published
variable {α : Type} [Field α] (sqrt log ceil floor : α → α) (rpow : α → α → α) (min2 : α → α → α)

/-- T-HOO: `U = mean + sqrt(2 ln n / T) + ν ρ^h` -/
def hooU (nu rho rounds mean T h : α) : α := mean + sqrt (2 * log rounds / T) + nu * rpow rho h

/-- HCT: `U = mean + ν ρ^h + c sqrt(ln(1/δ̃) / T)`, written as the code does with `c²` under the root -/
def hctU (nu rho c dt mean T h : α) : α := mean + nu * rpow rho h + sqrt (c ^ 2 * log (1 / dt) / T)

/-- VHCT (Bernstein width): `U = mean + sqrt(2 c² σ² ln(1/δ̃)/T) + 3 b c² ln(1/δ̃)/T + ν ρ^h` -/
def vhctU (nu rho c bound dt mean var T h : α) : α :=
  mean + (sqrt (2 * c ^ 2 * var * log (1 / dt) / T) + 3 * bound * c ^ 2 * log (1 / dt) / T) + nu * rpow rho h

/-- HCT threshold `τ_h = ceil(c² ln(1/δ̃) ρ^(-2h) / ν²)` -/
def hctTau (nu rho c dt h : α) : α := ceil (c ^ 2 * log (1 / dt) * rpow rho (-(2 * h)) / nu ^ 2)

/-- VHCT threshold: `τ = ceil((σ² + 3bνρ^h + σ² sqrt(1 + 6bνρ^h/σ²)) · c² ln(1/δ̃) ρ^(-2h) / ν²)` -/
def vhctTau (nu rho c bound dt var h : α) : α :=
  ceil ((var + 3 * bound * nu * rpow rho h + var * sqrt (1 + 6 * bound * nu * rpow rho h / var))
    * (c ^ 2 * log (1 / dt) * rpow rho (-(2 * h)) / nu ^ 2))

/-- StoSOO: `b = mean + sqrt(ln(nk/δ) / (2T))` -/
def stoB (n k delta mean T : α) : α := mean + sqrt (log (n * k / delta) / (2 * T))

/-- DOO: `b = f(x) + δ(h)` -/
def dooB (reward delta : α) : α := reward + delta

/-- T-HOO truncation depth `ceil((ln(n)/2 − ln(1/ν)) / ln(1/ρ))` -/
def hooDepth (nu rho rounds : α) : α := ceil ((log rounds / 2 - log (1 / nu)) / log (1 / rho))

/-- Zooming index `mean + 2 sqrt(8·phase/(2 + pulls))` -/
def zoomIndex (avg phase pulls : α) : α := avg + 2 * sqrt (8 * phase / (2 + pulls))

/-- VROOM rank key (lower confidence value) `mean − sqrt(ln(4n³/δ)/(2T))` -/
def vroomLcb (n delta mean T : α) : α := mean - sqrt (log (4 * n ^ 3 / delta) / (2 * T))

/-- running mean `(V·k + r)/(k+1)` (POO / GPO scores, Zooming averages) -/
def runningMean (V k r : α) : α := (V * k + r) / (k + 1)

/-- HCT/VHCT `δ̃ = min(cap, c1·δ / t⁺)` (cap = 1/2 for the thresholds, 1 for the U-values) -/
def hctDt (cap c1 delta tplus : α) : α := min2 cap (c1 * delta / tplus)

/-- GPO: `N = ceil(½ · D_max · ln((n/2)/ln(n/2)))`, `D_max = ln 2 / ln(1/ρ_max)` -/
def gpoN (rhomax n : α) : α := ceil (1 / 2 * (log 2 / log (1 / rhomax)) * log (n / 2 / log (n / 2)))

/-- GPO: phase half-length `floor(n / (2N))` -/
def gpoHalf (n N : α) : α := floor (n / (2 * N))

/-- POO / GPO learner grid `ρ_max^(2N/(2i+1))` -/
def gridRho (rhomax N i : α) : α := rpow rhomax (2 * N / (2 * i + 1))

/-- POO: right-hand side of the start / continuation test `N ≤ ½ · D_max · ln(n / ln n)` -/
def pooBound (Dmax n : α) : α := 1 / 2 * Dmax * log (n / log n)

/-- Zooming confidence radius `sqrt(8·phase/(2 + pulls))` and refinement threshold `ν ρ^h` -/
def zoomRadius (phase pulls : α) : α := sqrt (8 * phase / (2 + pulls))
def zoomThreshold (nu rho h : α) : α := nu * rpow rho h

/-- VROOM: weight of a cell of depth `h` and rank `r`: `1/(h·r·C)`; importance-weighted reward `r/(P/2^i)` (Eq. 4),
`P` the cumulative weight of the layers down to the cell, `2^i` written as the value `pw` -/
def vroomProb (h rank C : α) : α := 1 / (h * rank * C)
def vroomTilde (r cum pw : α) : α := r / (cum / pw)

/-- HCT / VHCT: `c₁ = (ρ/(3ν))^{1/8}`; VROOM: `δ = 4b/(f_max·√n)` -/
def hctC1 (nu rho : α) : α := rpow (rho / (3 * nu)) (1 / 8)
def vroomDelta (b fmax n : α) : α := 4 * b / (fmax * sqrt n)

/-- VHCT: the empirical variance used in the index is floored at `minvar` -/
def varFloor (max2 : α → α → α) (var minvar : α) : α := max2 var minvar

end PyXAB.Published
