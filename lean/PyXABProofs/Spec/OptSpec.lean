/-
  Spec-level definitions for the *optimism* guarantee of DOO (`Props/DOOOptimism.lean`).
  Nothing in this file is proved.

  * `OPT.CellAt k root h b`: `b` is the box of a cell of depth `h` of a partition of class `k` of
    the domain `root` (a purely geometric notion: `root` has depth 0, and the children boxes
    `childBoxes k b d` of a depth-`h` cell box `b`, for a draw `d` NumPy can produce for `b`, have
    depth `h + 1`);  `OPT.CellsOf k root P`: every cell of the arena `P` is such a box, at its
    own depth;
  * `DOO.DeltaValid cfg k root f xstar`: the user's bound `delta` is valid for the objective `f`
    along the point `xstar`:  `f xstar ≤ bOf (f (centre of b)) (delta h)` for every cell `b` of
    depth `h` whose closed box contains `xstar`;
  * `DOO.Noiseless cfg f s inputs`: along the documented loop started in `s`, the reward handed
    to every `receive` is `f` of the point (`Box.cpoint` of the box) of the cell which the
    preceding `pull` handed out;
  * `DOO.roundT`, `DOO.runRoundsT`, `DOO.runT`: the documented loop `DOO.round` / `runRounds` /
    `run` of `Spec/SweepSpec.lean`, instrumented with the expansion events of its `pull`s
    (`DOO.pullT`), all rounds concatenated, first round first.
-/
import PyXABProofs.Spec.TotalSpec

namespace PyXAB

namespace OPT
section cells
variable {α σ : Type} [Add α] [Sub α] [Mul α] [Div α] [OfNat α 2] [NatCast α] [LE α]

/-- `b` is the box of a depth-`h` cell of a class-`k` partition of `root`. -/
inductive CellAt (k : Kind) (root : Box α) : Nat → Box α → Prop
  | root : CellAt k root 0 root
  | child {h : Nat} {b c : Box α} {d : Draw α} :
      CellAt k root h b → DrawOK k b d → c ∈ childBoxes k b d → CellAt k root (h + 1) c

/-- Every cell of the arena is a cell box of the partition of `root`, at its own depth. -/
def CellsOf (k : Kind) (root : Box α) (P : Part α σ) : Prop :=
  ∀ (i : Nat) (nd : Node α σ), P.nodes[i]? = some nd → CellAt k root nd.depth nd.box

end cells
end OPT

namespace DOO
open Tree SW
variable {α S : Type} [Add α] [Sub α] [Mul α] [Div α] [OfNat α 2] [NatCast α]
variable [LinearOrder S] [Inhabited S]

/-- **Validity of `delta` for `f` along `xstar`** (the hypothesis of the optimism theorem):
whenever `self.delta(h)` returns `δ` — evaluated on a well-formed tree `P` all of whose cells
are cells of the partition of `root` — for the depth `h` of a leaf of `P` whose closed box
contains `xstar`, then `f xstar ≤ bOf (f (centre of that leaf)) δ`, i.e.
`f(centre) + δ(h) ≥ f(xstar)`.  (`delta` receives the tree because PyXAB's default
`delta_init` reads it; for a user-supplied table `delta` the tree is ignored, see
`DeltaValid.of_boxes` in `Props/DOOOptimism.lean`.) -/
def DeltaValid [LE α] (cfg : DOOCfg α S) (k : Kind) (root : Box α) (f : List α → S)
    (xstar : List α) : Prop :=
  ∀ (P : Part α (SwSt S)) (w : Nat) (nd : Node α (SwSt S)) (δ : S),
    WF P → OPT.CellsOf k root P → P.nodes[w]? = some nd → nd.children = none →
    Box.Mem nd.box xstar → cfg.delta P nd.depth = .ok δ →
    f xstar ≤ cfg.bOf (f (Box.cpoint nd.box)) δ

/-- **Noiseless evaluations of `f`**: in every round of the documented loop started in `s`,
the reward given to `receive` is `f` of the point of the cell `v` handed out by the `pull` of
that round (`TT.ptOf P v = Box.cpoint (box of v)`, what the Python `pull` returns). -/
def Noiseless (cfg : DOOCfg α S) (f : List α → S) : DOO α S → List (Input α S) → Prop
  | _, [] => True
  | s, x :: rest => ∀ s1 ds1 v, pull cfg s x.1 x.2.1 = .ok (s1, ds1, v) →
      x.2.2 = f (TT.ptOf s1.P v) ∧
      ∀ s2, receive s1 x.2.2 = .ok s2 → Noiseless cfg f s2 rest

/-- `DOO.round` which also returns the expansion events of its `pull`. -/
def roundT (cfg : DOOCfg α S) (s : DOO α S) (x : Input α S) :
    Except Err (DOO α S × Nat × List (Ev α (SwSt S) S)) :=
  match pullT cfg s x.1 x.2.1 with
  | .error e => .error e
  | .ok (s1, _, v, tr) =>
    match receive s1 x.2.2 with
    | .error e => .error e
    | .ok s2 => .ok (s2, v, tr)

/-- `DOO.runRounds` which also returns the expansion events of all its rounds. -/
def runRoundsT (cfg : DOOCfg α S) (s : DOO α S) :
    List (Input α S) → Except Err (DOO α S × List (Nat × S) × List (Ev α (SwSt S) S))
  | [] => .ok (s, [], [])
  | x :: rest =>
    match roundT cfg s x with
    | .error e => .error e
    | .ok (s1, v, tr) =>
      match runRoundsT cfg s1 rest with
      | .error e => .error e
      | .ok (s2, H, evs) => .ok (s2, (v, x.2.2) :: H, tr ++ evs)

/-- `DOO.run` which also returns the expansion events of the whole run. -/
def runT (cfg : DOOCfg α S) (k : Kind) (domain : Box α) (inputs : List (Input α S)) :
    Except Err (DOO α S × List (Nat × S) × List (Ev α (SwSt S) S)) :=
  runRoundsT cfg (init cfg k domain) inputs

end DOO
end PyXAB
