/-
  Spec-level definitions for properties C10 (POO) and C09 (GPO / PCT / VPCT):
  the documented ask/tell loop (`pull` then `receive`) instrumented with a ghost log, the
  hypothesis that the base learner never raises (`OpsTotal`), the recording learner, and the
  invariants `Inv` (between rounds) / `Ready` (between a `pull` and the `receive` following it).

  Everything here is core Lean (no Mathlib), generic in the base learner `ops`.
-/
import PyXABModel.Model.Meta

namespace PyXAB

variable {L α R S Pt ρ : Type}

/-- Every call of a base-learner operation returns normally. -/
def OpsTotal (ops : LearnerOps L α R Pt ρ) : Prop :=
  (∀ p ds, ∃ o, ops.create p ds = .ok o) ∧
  (∀ l t, ∃ o, ops.pull l t = .ok o) ∧
  (∀ l t r ds, ∃ o, ops.receive l t r ds = .ok o)

/-- The input of one round: the time passed to `pull`/`receive`, the reward, and the random
draws available to the base learner in this round. -/
structure RoundIn (α R : Type) where
  time : Nat
  r : R
  ds : List (Draw α)

/-- The recording learner: its state is the list of rewards it received (oldest first); `pull`
does not change it and proposes, as a (dummy) point, the list of rewards received so far. -/
def recOps (α R ρ : Type) : LearnerOps (List R) α R (List R) ρ where
  create := fun _ ds => .ok ([], ds)
  pull := fun l _ => .ok (l, l)
  receive := fun l _ r ds => .ok (l ++ [r], ds)

theorem recOps_total (α R ρ : Type) : OpsTotal (recOps α R ρ) :=
  ⟨fun _ _ => ⟨_, rfl⟩, fun _ _ => ⟨_, rfl⟩, fun _ _ _ _ => ⟨_, rfl⟩⟩

/-- `i` is the first index of a maximal element of `V` (`np.argmax`). -/
def IsFirstMax [LT S] [LE S] (V : List S) (i : Nat) : Prop :=
  ∃ v, V[i]? = some v ∧ (∀ (j : Nat) w, V[j]? = some w → w ≤ v) ∧ (∀ (j : Nat) w, j < i → V[j]? = some w → w < v)

/-! ## POO -/

namespace POO

/-- ghost: the index of the learner to which `receive` hands the reward -/
def recvIdx (cfg : POOCfg R S ρ) (s : POO L S) : Nat :=
  if cfg.cond s.N s.n then s.learners.length - 1 else s.algoCounter.getD 0

/-- ghost: the grid pair `(N, phase)` of the learner which `pull` constructs (if any) -/
def creates (cfg : POOCfg R S ρ) (s : POO L S) : Option (Nat × Nat) :=
  if cfg.cond s.N s.n = true ∧ s.counter = 0 then some (s.N, s.phase) else none

/-- One entry of the ghost log. -/
structure Entry (R : Type) where
  served : Nat                       -- index of the learner whose `pull` produced the point
  received : Nat                     -- index of the learner whose `receive` got the reward
  r : R
  created : Option (Nat × Nat)       -- `(N, phase)` if a learner was constructed in this round

/-- One round of the documented loop: `pull`, then `receive` (with the draws `pull` left). -/
def round (ops : LearnerOps L α R Pt ρ) (cfg : POOCfg R S ρ) (s : POO L S) (x : RoundIn α R) :
    Except Err (POO L S × Entry R × Pt) :=
  match pull ops cfg s x.time x.ds with
  | .error e => .error e
  | .ok (s1, ds1, i, pt) =>
    match receive ops cfg s1 x.time x.r ds1 with
    | .error e => .error e
    | .ok (s2, _) =>
      .ok (s2, { served := i, received := recvIdx cfg s1, r := x.r, created := creates cfg s }, pt)

/-- A run: the final state and the ghost log (oldest entry first). -/
def run (ops : LearnerOps L α R Pt ρ) (cfg : POOCfg R S ρ) :
    POO L S → List (RoundIn α R) → Except Err (POO L S × List (Entry R))
  | s, [] => .ok (s, [])
  | s, x :: xs =>
    match round ops cfg s x with
    | .error e => .error e
    | .ok (s1, e, _) =>
      match run ops cfg s1 xs with
      | .error e => .error e
      | .ok (s2, log) => .ok (s2, e :: log)

/-- States reachable by the documented loop from the constructor. -/
def Reach (ops : LearnerOps L α R Pt ρ) (cfg : POOCfg R S ρ) (s : POO L S) : Prop :=
  ∃ xs log, run ops cfg init xs = .ok (s, log)

/-- number of rewards delivered to learner `i` according to the log -/
def recvCount (log : List (Entry R)) (i : Nat) : Nat :=
  log.countP (fun e => e.received == i)

/-- the rewards delivered to learner `i` according to the log, oldest first -/
def recvRewards (log : List (Entry R)) (i : Nat) : List R :=
  (log.filter (fun e => e.received == i)).map (·.r)

/-- the grid pairs of the learners constructed, oldest first -/
def createdPairs (log : List (Entry R)) : List (Nat × Nat) :=
  log.filterMap (·.created)

/-- `N + phase` orders the grid pairs chronologically (`phase < N`, `N` only doubles);
`nextKey s` is a lower bound for the key of every learner constructed from `s` on. -/
def nextKey (s : POO L S) : Nat := s.N + s.phase + (if s.counter = 0 then 0 else 1)

/-- What a successful `pull` did: at most one learner was constructed (with the grid parameter
`rhoOf N phase`, appended at the end, with score `zero` and count `0`), then exactly one
learner — the one at the returned index `i` — was `pull`ed; nothing else changed. -/
def PullEffect (ops : LearnerOps L α R Pt ρ) (cfg : POOCfg R S ρ) (s : POO L S) (time : Nat)
    (ds : List (Draw α)) (s1 : POO L S) (ds1 : List (Draw α)) (i : Nat) (pt : Pt) : Prop :=
  s1.N = s.N ∧ s1.n = s.n ∧ s1.phase = s.phase ∧ s1.counter = s.counter ∧
  s1.algoCounter = s.algoCounter ∧
  ∃ pre l l1,
    ((creates cfg s = none ∧ pre = s.learners ∧ s1.V = s.V ∧ s1.times = s.times ∧ ds1 = ds) ∨
     (creates cfg s = some (s.N, s.phase) ∧ ∃ lnew,
        ops.create (cfg.rhoOf s.N s.phase) ds = .ok (lnew, ds1) ∧ pre = s.learners ++ [lnew] ∧
        s1.V = s.V ++ [cfg.zero] ∧ s1.times = s.times ++ [0])) ∧
    pre[i]? = some l ∧ ops.pull l time = .ok (l1, pt) ∧ s1.learners = pre.set i l1

/-- What a successful `receive` did: exactly the learner at index `j` received the reward; its
score was updated with `k =` its recorded count, and its count incremented; all other
learners, scores and counts are unchanged. -/
def RecvEffect (ops : LearnerOps L α R Pt ρ) (cfg : POOCfg R S ρ) (s : POO L S) (time : Nat) (r : R)
    (ds : List (Draw α)) (s2 : POO L S) (ds2 : List (Draw α)) (j : Nat) : Prop :=
  ∃ l l2 v t, s.learners[j]? = some l ∧ s.V[j]? = some v ∧ s.times[j]? = some t ∧
    ops.receive l time r ds = .ok (l2, ds2) ∧ s2.learners = s.learners.set j l2 ∧
    s2.V = s.V.set j (cfg.upd v t r) ∧ s2.times = s.times.set j (t + 1)

/-- Bookkeeping common to both invariants; `a`, `m` are ghost: `N = 2^a`, `n = m·N`. -/
structure Base (s : POO L S) (a m : Nat) : Prop where
  ha : 1 ≤ a
  hm : 1 ≤ m
  hN : s.N = 2 ^ a
  hn : s.n = m * s.N
  hV : s.V.length = s.learners.length
  hT : s.times.length = s.learners.length

/-- Round-robin mode (`cond N n = false`): learners before `algo_counter` have `m+1` rewards,
the others `m`. -/
def RRMode (s : POO L S) (m : Nat) : Prop :=
  s.phase = 0 ∧ s.counter = 0 ∧ ∃ ac, s.algoCounter = some ac ∧ ac < s.learners.length ∧
    ∀ (i : Nat) t, s.times[i]? = some t → t = if i < ac then m + 1 else m

/-- The invariant between rounds. -/
structure InvAM (cfg : POOCfg R S ρ) (s : POO L S) (a m : Nat) : Prop extends Base s a m where
  /-- creation mode: every learner has `m` rewards, except the last while it is being filled -/
  create : cfg.cond s.N s.n = true → s.phase < s.N ∧ s.counter < m ∧
    (0 < s.counter → s.learners ≠ []) ∧
    ∀ (i : Nat) t, s.times[i]? = some t →
      t = if i + 1 = s.learners.length ∧ 0 < s.counter then s.counter else m
  rr : cfg.cond s.N s.n = false → RRMode s m

/-- The invariant between a `pull` and the following `receive`. -/
structure ReadyAM (cfg : POOCfg R S ρ) (s : POO L S) (a m : Nat) : Prop extends Base s a m where
  create : cfg.cond s.N s.n = true → s.phase < s.N ∧ s.counter < m ∧ s.learners ≠ [] ∧
    ∀ (i : Nat) t, s.times[i]? = some t → t = if i + 1 = s.learners.length then s.counter else m
  rr : cfg.cond s.N s.n = false → RRMode s m

def Inv (cfg : POOCfg R S ρ) (s : POO L S) : Prop := ∃ a m, InvAM cfg s a m
def Ready (cfg : POOCfg R S ρ) (s : POO L S) : Prop := ∃ a m, ReadyAM cfg s a m

end POO

/-! ## GPO -/

namespace GPO

/-- One entry of the ghost log: phase and counter before the round, the point returned by
`pull`, the reward, and the phase number handed to `rhoOf` if a learner was constructed. -/
structure Entry (R Pt : Type) where
  phase : Nat
  counter : Nat
  pt : Pt
  r : R
  created : Option Nat

/-- ghost: the argument of `rhoOf` for the learner which `pull` constructs (if any) -/
def creates (cfg : GPOCfg R S ρ) (s : GPO L S Pt) : Option Nat :=
  if s.phase ≤ cfg.N ∧ s.counter = 0 then some s.phase else none

variable [LT S] [DecidableLT S]

def round (ops : LearnerOps L α R Pt ρ) (cfg : GPOCfg R S ρ) (s : GPO L S Pt) (x : RoundIn α R) :
    Except Err (GPO L S Pt × Entry R Pt) :=
  match pull ops cfg s x.time x.ds with
  | .error e => .error e
  | .ok (s1, ds1, pt) =>
    match receive ops cfg s1 x.time x.r ds1 with
    | .error e => .error e
    | .ok (s2, _) =>
      .ok (s2, { phase := s.phase, counter := s.counter, pt := pt, r := x.r, created := creates cfg s })

def run (ops : LearnerOps L α R Pt ρ) (cfg : GPOCfg R S ρ) :
    GPO L S Pt → List (RoundIn α R) → Except Err (GPO L S Pt × List (Entry R Pt))
  | s, [] => .ok (s, [])
  | s, x :: xs =>
    match round ops cfg s x with
    | .error e => .error e
    | .ok (s1, e) =>
      match run ops cfg s1 xs with
      | .error e => .error e
      | .ok (s2, log) => .ok (s2, e :: log)

omit [LT S] [DecidableLT S] in
/-- the rewards of the validation rounds (`counter ≥ half`) of phase `p`, oldest first -/
def valRewards (cfg : GPOCfg R S ρ) (log : List (Entry R Pt)) (p : Nat) : List R :=
  (log.filter (fun e => e.phase == p && decide (cfg.half ≤ e.counter))).map (·.r)

/-- the arguments of `rhoOf` of the learners constructed, oldest first -/
def createdParams (log : List (Entry R Pt)) : List Nat :=
  log.filterMap (·.created)

omit [LT S] [DecidableLT S] in
/-- What a successful `pull` did.  Exploring (`counter < half`): if `counter = 0` a learner is
constructed with `rhoOf phase`; then `ops.pull` is called on the current learner, whose proposal
is returned and remembered in `goodx`.  Validating (`counter ≥ half`): NO learner operation —
the current learner and the draws are untouched — and the remembered point `goodx` is returned
(and pushed on `Vx`, with score `zero`, when `counter = half`).  Done: nothing changes. -/
def PullEffect (ops : LearnerOps L α R Pt ρ) (cfg : GPOCfg R S ρ) (s : GPO L S Pt) (time : Nat)
    (ds : List (Draw α)) (s1 : GPO L S Pt) (ds1 : List (Draw α)) (pt : Pt) : Prop :=
  s1.phase = s.phase ∧ s1.counter = s.counter ∧
  if cfg.N < s.phase then s1 = s ∧ ds1 = ds ∧ s.goodx = some pt
  else if s.counter < cfg.half then
    ∃ l l', (if s.counter = 0 then
        ops.create (cfg.rhoOf s.phase) ds = .ok (l, ds1) ∧ s1.created = s.created + 1
      else s.curr = some l ∧ ds1 = ds ∧ s1.created = s.created) ∧
      ops.pull l time = .ok (l', pt) ∧ s1.curr = some l' ∧ s1.goodx = some pt ∧
      s1.V = s.V ∧ s1.Vx = s.Vx
  else
    s1.curr = s.curr ∧ ds1 = ds ∧ s.goodx = some pt ∧ s1.goodx = s.goodx ∧ s1.created = s.created ∧
      if s.counter = cfg.half then s1.Vx = s.Vx ++ [pt] ∧ s1.V = s.V ++ [cfg.zero]
      else s1.Vx = s.Vx ∧ s1.V = s.V

/-- What a successful `receive` did.  Exploring: the reward goes to the current learner.
Validating: no learner operation; `V[phase-1]` is updated with `k = counter - half`.
Then the counter advances (and the phase, after `2·half` rounds; after the last phase `goodx`
becomes the validated point with the first maximal score).  Done: nothing changes. -/
def RecvEffect (ops : LearnerOps L α R Pt ρ) (cfg : GPOCfg R S ρ) (s : GPO L S Pt) (time : Nat) (r : R)
    (ds : List (Draw α)) (s2 : GPO L S Pt) (ds2 : List (Draw α)) : Prop :=
  if cfg.N < s.phase then s2 = s ∧ ds2 = ds
  else
    s2.Vx = s.Vx ∧ s2.created = s.created ∧
    (if s.counter + 1 < 2 * cfg.half then
        s2.phase = s.phase ∧ s2.counter = s.counter + 1 ∧ s2.goodx = s.goodx
      else s2.phase = s.phase + 1 ∧ s2.counter = 0 ∧
        (if s.phase + 1 ≤ cfg.N then s2.goodx = s.goodx
         else ∃ i p, argmaxFirst s2.V = some i ∧ s2.Vx[i]? = some p ∧ s2.goodx = some p)) ∧
    if s.counter < cfg.half then
      ∃ l l', s.curr = some l ∧ ops.receive l time r ds = .ok (l', ds2) ∧ s2.curr = some l' ∧ s2.V = s.V
    else
      ∃ v, s.V[s.phase - 1]? = some v ∧
        s2.V = s.V.set (s.phase - 1) (cfg.upd v (s.counter - cfg.half) r) ∧ s2.curr = s.curr ∧ ds2 = ds

/-- The invariant between rounds. -/
structure Inv (cfg : GPOCfg R S ρ) (s : GPO L S Pt) : Prop where
  hph : 1 ≤ s.phase ∧ s.phase ≤ cfg.N + 1
  hlen : s.Vx.length = s.V.length
  /-- exploring / validating -/
  run : s.phase ≤ cfg.N → s.counter < 2 * cfg.half ∧
    s.created = s.phase - 1 + (if s.counter = 0 then 0 else 1) ∧
    s.V.length = s.phase - 1 + (if cfg.half < s.counter then 1 else 0) ∧
    (0 < s.counter → (∃ l, s.curr = some l) ∧ ∃ p, s.goodx = some p ∧
      (cfg.half < s.counter → s.Vx[s.phase - 1]? = some p))
  /-- all phases over -/
  done : cfg.N < s.phase → s.counter = 0 ∧ s.created = cfg.N ∧ s.V.length = cfg.N ∧
    ∃ i p, argmaxFirst s.V = some i ∧ s.Vx[i]? = some p ∧ s.goodx = some p

/-- The invariant between a `pull` and the following `receive`. -/
structure Ready (cfg : GPOCfg R S ρ) (s : GPO L S Pt) : Prop where
  hph : 1 ≤ s.phase ∧ s.phase ≤ cfg.N + 1
  hlen : s.Vx.length = s.V.length
  run : s.phase ≤ cfg.N → s.counter < 2 * cfg.half ∧ s.created = s.phase ∧
    s.V.length = s.phase - 1 + (if cfg.half ≤ s.counter then 1 else 0) ∧
    (∃ l, s.curr = some l) ∧ ∃ p, s.goodx = some p ∧
      (cfg.half ≤ s.counter → s.Vx[s.phase - 1]? = some p)
  done : cfg.N < s.phase → s.counter = 0 ∧ s.created = cfg.N ∧ s.V.length = cfg.N ∧
    ∃ i p, argmaxFirst s.V = some i ∧ s.Vx[i]? = some p ∧ s.goodx = some p

/-- number of complete rounds played so far (meaningful while `phase ≤ N + 1`) -/
def roundNo (cfg : GPOCfg R S ρ) (s : GPO L S Pt) : Nat :=
  (s.phase - 1) * (2 * cfg.half) + s.counter

end GPO
end PyXAB
