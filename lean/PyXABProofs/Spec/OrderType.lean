/-
  Order-type tie for the selection rules.

  The selection rules of the algorithms (which child `optTraverse` follows, the backward B-value, VROOM's ranking,
  `np.argmax` over the learners' scores, Zooming's arm choice) only *compare* values.  Their result on a list of
  values therefore depends on the order type of the list alone, i.e. on its list of dense ranks
  (`denseRanks [3.5, -1, 3.5] = [1, 0, 1]`).  For lists of length `k` there are finitely many dense rank lists
  (`allDense k`; 3, 13, 75 for k = 2, 3, 4).

  On every check run `harness/translate_rules.py` runs the REAL methods on order-only values (objects that can be
  compared and nothing else), once per dense rank list, and writes what the code chose into a table in
  `Generated/OrderTie.lean`.  Lean then checks by evaluation (`decide`) that the model rule gives the same answer on every
  entry and that the table is complete, and the theorems below lift that to **all** values of any linear order:
  for every list of values of the covered lengths, the model's choice is the choice the real code made on the
  list's order type.
-/
import Mathlib.Order.Basic
import Mathlib.Order.Defs.LinearOrder
import Mathlib.Data.List.Dedup
import Mathlib.Data.Nat.Basic
import PyXABModel.Model.TreeBandit
import PyXABModel.Model.Meta
import PyXABModel.Model.VROOM
import PyXABModel.Model.Zooming

namespace PyXAB.OT

section defs
variable {S : Type} [LinearOrder S]

/-- number of distinct values of `vs` strictly below `x` -/
def denseRank (vs : List S) (x : S) : Nat := ((vs.filter (fun v => decide (v < x))).dedup).length

/-- the order type of a list: every value replaced by its dense rank -/
def denseRanks (vs : List S) : List Nat := vs.map (denseRank vs)

end defs

/-- all lists of length `k` over `0..n-1` -/
def seqs : Nat → Nat → List (List Nat)
  | 0, _ => [[]]
  | k + 1, n => (List.range n).flatMap (fun v => (seqs k n).map (fun l => v :: l))

/-- the values of `rs` are exactly an initial segment `0..m` -/
def isDense (rs : List Nat) : Bool :=
  (List.range (rs.foldl max 0 + 1)).all (fun v => rs.contains v)

/-- all dense rank lists of length `k` (`k ≥ 1`) -/
def allDense (k : Nat) : List (List Nat) := (seqs k k).filter isDense

/-! ## the rules, over any linear order (the models' own functions, applied to a plain list of values) -/

section rules
variable {S : Type} [LinearOrder S] [Inhabited S]

/-- `optTraverse`'s child choice among children carrying B-values `vs` (model: `pickChild`) -/
def pick (vs : List S) : List Nat :=
  (pickChild (fun i => vs[i]!) (List.range vs.length)).toList

/-- `updateBackwardTree` for one cell: `vs = bot :: u :: bs`, `bot` standing for the literal `-inf` (≤ everything),
`u` the cell's U-value, `bs` the children's B-values; the result `min u (fold max bot bs)` is reported by its dense rank
(the model's `backwardLayer` computes exactly this fold) -/
def backB (vs : List S) : List Nat :=
  match vs with
  | bot :: u :: bs => [denseRank vs (min u (bs.foldl max bot))]
  | _ => []

/-- VROOM's `sorted(nodes, key=…, reverse=True)` on keys `vs` (model: `sortDesc`) -/
def sortD (vs : List S) : List Nat :=
  VROOM.sortDesc (fun i => vs[i]!) (List.range vs.length)

/-- `np.argmax` over scores `vs` (model: `argmaxFirst`) -/
def amaxFirst (vs : List S) : List Nat := (argmaxFirst vs).toList

/-- Zooming's arm choice: `vs = bot :: indices`, `bot` the literal `-inf` the running maximum starts from
(model: `Zooming.argmaxArm` with the index of an arm being its stored value) -/
def amaxArm (vs : List S) : List Nat :=
  match vs with
  | bot :: xs =>
    let cfg : ZoomCfg S S :=
      { negInf := bot, zero := bot, indexOf := fun a _ _ => a, upd := fun a _ _ => a, refine := fun _ _ _ => false }
    let arms : List (Arm S S) := xs.map (fun x => { pt := [], cell := 0, pulls := 0, avg := x })
    (Zooming.argmaxArm cfg 0 arms).toList
  | [] => []

end rules

/-! ## tables written from the real code, and what is checked about them -/

/-- (dense rank list, what the real code chose on values of that order type) -/
abbrev Table := List (List Nat × List Nat)

def lookup (t : Table) (rs : List Nat) : Option (List Nat) := (t.find? (fun e => e.1 == rs)).map (fun e => e.2)

/-- the model rule (evaluated on the rank list itself, ranks being values of the linear order `Nat`) gives the
table's answer on every entry -/
def agrees (m : List Nat → List Nat) (t : Table) : Bool := t.all (fun e => m e.1 == e.2)

/-- every dense rank list of the lengths `ks` that satisfies the side condition `ok` has an entry -/
def complete (t : Table) (ks : List Nat) (ok : List Nat → Bool) : Bool :=
  ks.all (fun k => (allDense k).all (fun rs => !ok rs || t.any (fun e => e.1 == rs)))

/-- side condition of the rules whose first value stands for `-inf`: it is a least element -/
def botFirst (rs : List Nat) : Bool := rs.head? == some 0

end PyXAB.OT
