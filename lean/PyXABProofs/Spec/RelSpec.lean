/-
  Spec-level definitions for the relational property groups

  * C14  (reproducibility / isolation of instances / inputs are not mutated),
  * C15  (irrelevance of the `time` labels, harmlessness of `get_last_point` queries),
  * C16  (equivariance under per-dimension positive affine maps of the domain).

  Nothing is proved in this file.
-/
import PyXABModel.Model.TreeBandit
import PyXABModel.Model.Sweep
import PyXABModel.Model.SequOOL
import PyXABModel.Model.VROOM
import PyXABModel.Model.Zooming
import PyXABModel.Model.Meta
import Mathlib.Data.List.Forall2
import Mathlib.Algebra.Order.Field.Basic

namespace PyXAB
namespace Rel

/-! ## Generic state machines (C14, and the whole-run statements of C15 / C16) -/
section machines
variable {σ σ' σ₁ σ₂ ι ι₁ ι₂ ο ο' ο₁ ο₂ ε : Type}

/-- Run a machine on a list of inputs, stopping at the first exception; returns the final state
and the list of outputs. -/
def runM (step : σ → ι → Except ε (σ × ο)) : σ → List ι → Except ε (σ × List ο)
  | s, [] => .ok (s, [])
  | s, i :: is =>
    match step s i with
    | .error e => .error e
    | .ok (s1, o) =>
      match runM step s1 is with
      | .error e => .error e
      | .ok (s2, os) => .ok (s2, o :: os)

/-- The outputs of a run (or its exception). -/
def outs : Except ε (σ × List ο) → Except ε (List ο)
  | .ok (_, os) => .ok os
  | .error e => .error e

/-- Two independent instances side by side: an operation tagged `inl` is an operation of the
first instance, `inr` of the second; each operation touches one component only. -/
def stepPair (step₁ : σ₁ → ι₁ → Except ε (σ₁ × ο₁)) (step₂ : σ₂ → ι₂ → Except ε (σ₂ × ο₂)) :
    σ₁ × σ₂ → ι₁ ⊕ ι₂ → Except ε ((σ₁ × σ₂) × (ο₁ ⊕ ο₂))
  | (s₁, s₂), .inl i =>
    match step₁ s₁ i with
    | .error e => .error e
    | .ok (t₁, o) => .ok ((t₁, s₂), .inl o)
  | (s₁, s₂), .inr i =>
    match step₂ s₂ i with
    | .error e => .error e
    | .ok (t₂, o) => .ok ((s₁, t₂), .inr o)

/-- the sub-sequence of the `inl` elements -/
def lefts {A B : Type} (l : List (A ⊕ B)) : List A := l.filterMap Sum.getLeft?
/-- the sub-sequence of the `inr` elements -/
def rights {A B : Type} (l : List (A ⊕ B)) : List B := l.filterMap Sum.getRight?

/-- Two results are related: both fail with the same exception, or both succeed with related
states and related outputs. -/
def RelRes (Rs : σ → σ' → Prop) (Q : ο → ο' → Prop) :
    Except ε (σ × ο) → Except ε (σ' × ο') → Prop
  | .ok (s, o), .ok (s', o') => Rs s s' ∧ Q o o'
  | .error e, .error e' => e = e'
  | _, _ => False

/-- the same for results without an output -/
def RelRes1 (Rs : σ → σ' → Prop) : Except ε σ → Except ε σ' → Prop
  | .ok s, .ok s' => Rs s s'
  | .error e, .error e' => e = e'
  | _, _ => False

end machines

/-! ## Operation machines of the algorithms -/

/-- A user-level operation on a tree bandit (T-HOO): `pull()` or `receive_reward(r)` (with the
random draws consumed by a possible expansion). -/
inductive TBOp (α R : Type) where
  | pull
  | receive (r : R) (ds : List (Draw α))

section hooOps
variable {α R S : Type} [Add α] [Sub α] [Mul α] [Div α] [OfNat α 2] [NatCast α]
variable [LE S] [DecidableLE S] [Max S] [Min S] [Inhabited S] [Inhabited R]

/-- One operation of a T-HOO instance; the output is the pulled id (for `pull`). -/
def hooOp (cfg : HOOCfg R S) (s : HOO α R S) : TBOp α R → Except Err (HOO α R S × Option Nat)
  | .pull =>
    match HOO.pull s with
    | .error e => .error e
    | .ok (s1, v) => .ok (s1, some v)
  | .receive r ds =>
    match HOO.receive cfg s r ds with
    | .error e => .error e
    | .ok (s1, _) => .ok (s1, none)

/-- One documented round of T-HOO preceded by `q` extra `pull` calls (`get_last_point`
queries): `pull^q; pull; receive`. -/
def hooPullN : Nat → HOO α R S → Except Err (HOO α R S)
  | 0, s => .ok s
  | q + 1, s =>
    match HOO.pull s with
    | .error e => .error e
    | .ok (s1, _) => hooPullN q s1

/-- Round of T-HOO with `q` extra queries before the `pull`; input `(q, r, ds)`. -/
def hooRoundQ (cfg : HOOCfg R S) (s : HOO α R S) (x : Nat × R × List (Draw α)) :
    Except Err (HOO α R S × Nat) :=
  match hooPullN x.1 s with
  | .error e => .error e
  | .ok s0 =>
    match HOO.pull s0 with
    | .error e => .error e
    | .ok (s1, v) =>
      match HOO.receive cfg s1 x.2.1 x.2.2 with
      | .error e => .error e
      | .ok (s2, _) => .ok (s2, v)

/-- `pull^q` for HCT / VHCT. -/
def hctPullN (cfg : HCTCfg R S) : Nat → HCT α R S → Except Err (HCT α R S)
  | 0, s => .ok s
  | q + 1, s =>
    match HCT.pull cfg s with
    | .error e => .error e
    | .ok (s1, _) => hctPullN cfg q s1

/-- Round of HCT / VHCT with `q` extra queries before the `pull`. -/
def hctRoundQ (cfg : HCTCfg R S) (s : HCT α R S) (x : Nat × R × List (Draw α)) :
    Except Err (HCT α R S × Nat) :=
  match hctPullN cfg x.1 s with
  | .error e => .error e
  | .ok s0 =>
    match HCT.pull cfg s0 with
    | .error e => .error e
    | .ok (s1, v) =>
      match HCT.receive cfg s1 x.2.1 x.2.2 with
      | .error e => .error e
      | .ok (s2, _) => .ok (s2, v)

/-- T-HOO as a base learner of the meta-algorithms: a learner is an instance together with its
own configuration (`ρ` ↦ configuration, partition class and domain of a new instance); the
proposed "point" is the id of the pulled cell. -/
def hooLearner {ρ : Type} (mk : ρ → HOOCfg R S × Kind × Box α) :
    LearnerOps (HOOCfg R S × HOO α R S) α R Nat ρ where
  create := fun p ds =>
    match HOO.init (mk p).1 (mk p).2.1 (mk p).2.2 ds with
    | .error e => .error e
    | .ok (s, ds') => .ok (((mk p).1, s), ds')
  pull := fun l _ =>
    match HOO.pull l.2 with
    | .error e => .error e
    | .ok (s, v) => .ok ((l.1, s), v)
  receive := fun l _ r ds =>
    match HOO.receive l.1 l.2 r ds with
    | .error e => .error e
    | .ok (s, ds') => .ok ((l.1, s), ds')

/-- same configuration, tree and round counter (the stored path is ignored) -/
def HOOSameTree (l l' : HOOCfg R S × HOO α R S) : Prop :=
  l'.1 = l.1 ∧ l'.2.P = l.2.P ∧ l'.2.iteration = l.2.iteration

end hooOps

section zoomOps
variable {α R S : Type} [Add α] [Sub α] [Mul α] [Div α] [OfNat α 2] [NatCast α]
variable [LE α] [DecidableLE α] [LE S] [DecidableLE S] [Inhabited S]

def zoomPullN (cfg : ZoomCfg R S) : Nat → Zooming α S → Except Err (Zooming α S)
  | 0, s => .ok s
  | q + 1, s =>
    match Zooming.pull cfg s with
    | .error e => .error e
    | .ok (s1, _) => zoomPullN cfg q s1

/-- Round of Zooming with `q` extra queries before the `pull`; the output is (arm, point). -/
def zoomRoundQ (cfg : ZoomCfg R S) (s : Zooming α S) (x : Nat × R × List (Draw α)) :
    Except Err (Zooming α S × Nat × List α) :=
  match zoomPullN cfg x.1 s with
  | .error e => .error e
  | .ok s0 =>
    match Zooming.pull cfg s0 with
    | .error e => .error e
    | .ok (s1, v) =>
      match Zooming.receive cfg s1 x.2.1 x.2.2 with
      | .error e => .error e
      | .ok (s2, _) => .ok (s2, v)

/-- construction followed by rounds; outputs = the (arm, point) of every round -/
def zoomRun (cfg : ZoomCfg R S) (k : Kind) (domain : Box α) (ds0 : List (Draw α))
    (inputs : List (Nat × R × List (Draw α))) : Except Err (Zooming α S × List (Nat × List α)) :=
  match Zooming.init cfg k domain ds0 with
  | .error e => .error e
  | .ok (s0, _) => runM (zoomRoundQ cfg) s0 inputs

end zoomOps

/-! ## C15.1: states equal up to the stored time label -/

/-- all fields equal except `iteration` -/
structure SOOEqExceptIter {α S : Type} (s s' : SOO α S) : Prop where
  P : s'.P = s.P
  hmax : s'.hmax = s.hmax
  curr : s'.curr = s.curr

structure DOOEqExceptIter {α S : Type} (s s' : DOO α S) : Prop where
  P : s'.P = s.P
  curr : s'.curr = s.curr

structure SeqEqExceptIter {α S : Type} (s s' : SequOOL α S) : Prop where
  P : s'.P = s.P
  hmax : s'.hmax = s.hmax
  currDepth : s'.currDepth = s.currDepth
  loc : s'.loc = s.loc
  budget : s'.budget = s.budget
  chosen : s'.chosen = s.chosen
  curr : s'.curr = s.curr

structure VrEqExceptIter {α R S : Type} (s s' : VROOM α R S) : Prop where
  P : s'.P = s.P
  prob : s'.prob = s.prob
  curr : s'.curr = s.curr
  updateList : s'.updateList = s.updateList

/-- Inputs of one timed round: the `time` label, the draws offered to `pull`, the reward. -/
abbrev TIn (α R : Type) := Nat × List (Draw α) × R

/-- forget the time labels -/
def untimed {α R : Type} (l : List (TIn α R)) : List (List (Draw α) × R) := l.map (·.2)

section timedRounds
variable {α R S : Type} [Add α] [Sub α] [Mul α] [Div α] [OfNat α 2] [NatCast α]
variable [LE S] [DecidableLE S] [Inhabited S] [Inhabited R]

/-- `pull(time)` then `receive_reward(time, r)` of SOO; output = id of the handed-out cell -/
def sooRound (negInf : S) (s : SOO α S) (x : TIn α S) : Except Err (SOO α S × Nat) :=
  match SOO.pull negInf s x.1 x.2.1 with
  | .error e => .error e
  | .ok (s1, _, v) =>
    match SOO.receive s1 x.2.2 with
    | .error e => .error e
    | .ok s2 => .ok (s2, v)

def dooRound (cfg : DOOCfg α S) (s : DOO α S) (x : TIn α S) : Except Err (DOO α S × Nat) :=
  match DOO.pull cfg s x.1 x.2.1 with
  | .error e => .error e
  | .ok (s1, _, v) =>
    match DOO.receive s1 x.2.2 with
    | .error e => .error e
    | .ok s2 => .ok (s2, v)

def seqRound (negInf : S) (s : SequOOL α S) (x : TIn α S) : Except Err (SequOOL α S × Nat) :=
  match SequOOL.pull negInf s x.1 x.2.1 with
  | .error e => .error e
  | .ok (s1, _, v) =>
    match SequOOL.receive s1 x.2.2 with
    | .error e => .error e
    | .ok s2 => .ok (s2, v)

/-- VROOM: input = (time, random choices of the pull, reward); output = (cell, sampled point) -/
def vroomRound (cfg : VrCfg R S) (s : VROOM α R S) (x : Nat × VDraw α × R) :
    Except Err (VROOM α R S × Nat × List α) :=
  match VROOM.pull cfg s x.1 x.2.1 with
  | .error e => .error e
  | .ok (s1, v) =>
    match VROOM.receive cfg s1 x.2.2 with
    | .error e => .error e
    | .ok s2 => .ok (s2, v)

end timedRounds

/-- the base learner ignores the `time` label -/
structure OpsIgnoreTime {L α R Pt ρ : Type} (ops : LearnerOps L α R Pt ρ) : Prop where
  pull : ∀ l t t', ops.pull l t = ops.pull l t'
  receive : ∀ l t t' r ds, ops.receive l t r ds = ops.receive l t' r ds

/-! ## C15.2 (POO): a base learner whose extra pulls are harmless -/

/-- `≈` is an equivalence on learner states such that a `pull` leaves the state in its class
(`pull` only refreshes cached data which the next `pull` recomputes), and `pull` / `receive`
respect `≈` with equal outputs. -/
structure QueryHarmless {L α R Pt ρ : Type} (ops : LearnerOps L α R Pt ρ) (E : L → L → Prop) :
    Prop where
  refl : ∀ l, E l l
  symm : ∀ l l', E l l' → E l' l
  trans : ∀ l l' l'', E l l' → E l' l'' → E l l''
  pull_stay : ∀ l t l' p, ops.pull l t = .ok (l', p) → E l' l
  pull_resp : ∀ l₁ l₂ t, E l₁ l₂ → RelRes E Eq (ops.pull l₁ t) (ops.pull l₂ t)
  recv_resp : ∀ l₁ l₂ t r ds, E l₁ l₂ → RelRes E Eq (ops.receive l₁ t r ds) (ops.receive l₂ t r ds)

/-- Protocol-aware refinement of `QueryHarmless` (it is `QueryHarmless` when `F = E`): `E` relates
learner states *between* rounds, the finer `F` relates them between a `pull` and the matching
`receive`.  A `pull` maps `E`-related states to `F`-related ones (it recomputes whatever earlier
pulls may have cached), `receive` maps `F`-related states to `E`-related ones.  T-HOO satisfies
this with `E` = "same tree and round counter" (the stored `path` is ignored) and `F` = equality. -/
structure RoundHarmless {L α R Pt ρ : Type} (ops : LearnerOps L α R Pt ρ) (E F : L → L → Prop) :
    Prop where
  refl : ∀ l, E l l
  symm : ∀ l l', E l l' → E l' l
  trans : ∀ l l' l'', E l l' → E l' l'' → E l l''
  sub : ∀ l l', F l l' → E l l'
  pull_stay : ∀ l t l' p, ops.pull l t = .ok (l', p) → E l' l
  pull_resp : ∀ l₁ l₂ t, E l₁ l₂ → RelRes F Eq (ops.pull l₁ t) (ops.pull l₂ t)
  recv_resp : ∀ l₁ l₂ t r ds, F l₁ l₂ → RelRes E Eq (ops.receive l₁ t r ds) (ops.receive l₂ t r ds)

/-- the learner which the next `receive_reward` of POO will credit -/
def pooRecvLearner {L R S ρ : Type} (cfg : POOCfg R S ρ) (s : POO L S) : Option L :=
  if cfg.cond s.N s.n then s.learners.getLast?
  else match s.algoCounter with
    | none => none
    | some ac => s.learners[ac]?

/-- POO states equal up to `≈` on the learners. -/
structure POOEquiv {L S : Type} (E : L → L → Prop) (s s' : POO L S) : Prop where
  N : s'.N = s.N
  n : s'.n = s.n
  phase : s'.phase = s.phase
  counter : s'.counter = s.counter
  algoCounter : s'.algoCounter = s.algoCounter
  learners : List.Forall₂ E s.learners s'.learners
  V : s'.V = s.V
  times : s'.times = s.times

/-- input of one POO round -/
structure PIn (α R : Type) where
  /-- number of `get_last_point` queries issued before the round -/
  queries : Nat
  time : Nat
  pullDraws : List (Draw α)
  reward : R
  recvDraws : List (Draw α)

section pooRounds
variable {L α R S Pt ρ : Type} [LT S] [DecidableLT S]

def pooQueryN (ops : LearnerOps L α R Pt ρ) : Nat → POO L S → Except Err (POO L S)
  | 0, s => .ok s
  | q + 1, s =>
    match POO.lastPoint ops s with
    | .error e => .error e
    | .ok (s1, _) => pooQueryN ops q s1

/-- `get_last_point^q; pull; receive` — output: (learner index, point) of the pull -/
def pooRoundQ (ops : LearnerOps L α R Pt ρ) (cfg : POOCfg R S ρ) (s : POO L S) (x : PIn α R) :
    Except Err (POO L S × Nat × Pt) :=
  match pooQueryN ops x.queries s with
  | .error e => .error e
  | .ok s0 =>
    match POO.pull ops cfg s0 x.time x.pullDraws with
    | .error e => .error e
    | .ok (s1, _, v) =>
      match POO.receive ops cfg s1 x.time x.reward x.recvDraws with
      | .error e => .error e
      | .ok (s2, _) => .ok (s2, v)

end pooRounds

/-! ## C14: the user's `domain` object -/

/-- the box stored at the root of the partition tree -/
def rootBox {α σ : Type} (P : Part α σ) : Option (Box α) := (P.nodes[0]?).map (·.box)

/-- every existing cell keeps its box -/
def BoxesKept {α σ : Type} (P P' : Part α σ) : Prop :=
  ∀ (i : Nat) (nd : Node α σ), P.nodes[i]? = some nd → ∃ nd', P'.nodes[i]? = some nd' ∧ nd'.box = nd.box

/-! ## C16: per-dimension positive affine maps -/

/-- The map `x_j ↦ a_j · x_j + b_j` (coefficients beyond the lists default to `a_j = 1`,
`b_j = 0`). -/
structure Aff (α : Type) where
  a : List α
  b : List α

namespace Aff
variable {α : Type} [Add α] [Mul α] [One α] [Zero α]

def co (φ : Aff α) (j : Nat) : α := φ.a.getD j 1
def sh (φ : Aff α) (j : Nat) : α := φ.b.getD j 0

/-- coordinate `j` -/
def ap (φ : Aff α) (j : Nat) (x : α) : α := φ.co j * x + φ.sh j

def iv (φ : Aff α) (j : Nat) (i : Iv α) : Iv α := ⟨φ.ap j i.lo, φ.ap j i.hi⟩

def box (φ : Aff α) (b : Box α) : Box α := b.mapIdx φ.iv

def pt (φ : Aff α) (x : List α) : List α := x.mapIdx φ.ap

/-- the random split points of a `make_children` call live on the axis `d.dim` -/
def draw (φ : Aff α) (d : Draw α) : Draw α := { dim := d.dim, pts := d.pts.map (φ.ap d.dim) }

/-- all scale factors are positive -/
def Pos [LT α] (φ : Aff α) : Prop := ∀ x ∈ φ.a, 0 < x

/-- a pure translation -/
def IsTranslation (φ : Aff α) : Prop := ∀ x ∈ φ.a, x = 1

end Aff

/-- apply `g` to the box of a node -/
def nodeMapBox {α σ : Type} (g : Box α → Box α) (nd : Node α σ) : Node α σ := { nd with box := g nd.box }

/-- apply `g` to the box of every node (everything else untouched) -/
def partMapBox {α σ : Type} (g : Box α → Box α) (P : Part α σ) : Part α σ :=
  { P with nodes := P.nodes.map (nodeMapBox g) }

def hooMapBox {α R S : Type} (g : Box α → Box α) (s : HOO α R S) : HOO α R S :=
  { s with P := partMapBox g s.P }

def hctMapBox {α R S : Type} (g : Box α → Box α) (s : HCT α R S) : HCT α R S :=
  { s with P := partMapBox g s.P }

def sooMapBox {α S : Type} (g : Box α → Box α) (s : SOO α S) : SOO α S :=
  { s with P := partMapBox g s.P }

def seqMapBox {α S : Type} (g : Box α → Box α) (s : SequOOL α S) : SequOOL α S :=
  { s with P := partMapBox g s.P }

def armMapPt {α S : Type} (f : List α → List α) (a : Arm α S) : Arm α S := { a with pt := f a.pt }

/-- Zooming: map the boxes of the tree and the points of the arms -/
def zoomMap {α S : Type} (g : Box α → Box α) (f : List α → List α) (s : Zooming α S) : Zooming α S :=
  { s with P := partMapBox g s.P, arms := s.arms.map (armMapPt f) }

/-- map a result `(state, remaining draws)` -/
def mapRes {ε A B A' B' : Type} (f : A → A') (g : B → B') : Except ε (A × B) → Except ε (A' × B')
  | .ok (a, b) => .ok (f a, g b)
  | .error e => .error e

/-- map a plain result -/
def mapRes1 {ε A A' : Type} (f : A → A') : Except ε A → Except ε A'
  | .ok a => .ok (f a)
  | .error e => .error e

/-! ## C16.4: DOO's default diameter function -/

/-- the squared half-width of a coordinate range as DOO's default `delta` computes it from the
end points and the centre -/
def halfWidthSq {α : Type} [Field α] [LinearOrder α] (iv : Iv α) : α :=
  max ((iv.lo - iv.mid) ^ 2) ((iv.hi - iv.mid) ^ 2)

end Rel
end PyXAB
