/-
  Spec-level definitions for properties C04 / C06 (tree bandits T-HOO, HCT, VHCT):
  the documented ask/tell loop (`init`, then rounds of `pull` + `receive`), its history of
  (pulled cell id, reward), root-to-cell paths, the ancestor relation of the final tree,
  and the invariants `Inv` (between rounds) / `Ready` (between `pull` and `receive`).
-/
import PyXABModel.Model.TreeBandit
import PyXABProofs.Spec.Tree

namespace PyXAB
namespace TBA

variable {α σ R S : Type}

/-! ### Payload bookkeeping -/

/-- `visited_times = len(rewards)`, and the stored mean of a visited cell is the configured
mean of its reward list. -/
def Good (meanOf : List R → Nat → S) (st : TBSt R S) : Prop :=
  st.count = st.rewards.length ∧ (st.count ≠ 0 → st.mean = meanOf st.rewards st.count)

/-- VHCT: the stored variance of a visited cell is the configured variance of its rewards. -/
def GoodVar (varOf : List R → S) (st : TBSt R S) : Prop :=
  st.count ≠ 0 → st.var = varOf st.rewards

/-- The part of the invariant shared by the three algorithms: the tree invariant of C03 and
the payload bookkeeping at every node. -/
structure PInv (meanOf : List R → Nat → S) (P : Part α (TBSt R S)) : Prop where
  wf : Tree.WF P
  good : ∀ (i : Nat) (nd : Node α (TBSt R S)), P.nodes[i]? = some nd → Good meanOf nd.st

/-! ### Paths -/

/-- `b` is listed in the child list of `a`. -/
def Child (P : Part α σ) (a b : Nat) : Prop :=
  ∃ (nd : Node α σ) (cs : List Nat), P.nodes[a]? = some nd ∧ nd.children = some cs ∧ b ∈ cs

/-- A non-empty list of valid ids in which consecutive elements are parent → child. -/
def DownChain (P : Part α σ) : List Nat → Prop
  | [] => False
  | [v] => v < P.nodes.length
  | a :: b :: rest => Child P a b ∧ DownChain P (b :: rest)

/-- A root-to-cell chain. -/
def IsPath (P : Part α σ) (path : List Nat) : Prop :=
  path.head? = some 0 ∧ DownChain P path

/-! ### Ancestors (through the `parent` pointers) -/

/-- `Anc P i j`: `i` is `j` or an ancestor of `j` in the tree `P` (following `parent`). -/
inductive Anc (P : Part α σ) : Nat → Nat → Prop
  | refl (i : Nat) : Anc P i i
  | up {i j p : Nat} {nd : Node α σ} :
      P.nodes[j]? = some nd → nd.parent = some p → Anc P i p → Anc P i j

/-- Executable version: follow at most `fuel` parent pointers upwards from `j`. -/
def isAncF (P : Part α σ) (i : Nat) : Nat → Nat → Bool
  | 0, j => i == j
  | fuel + 1, j =>
    i == j ||
      match P.nodes[j]? with
      | some nd =>
        match nd.parent with
        | some p => isAncF P i fuel p
        | none => false
      | none => false

/-- `i` is an ancestor-or-self of `j` (parents have smaller ids, so `j` steps suffice;
`TBA.isAnc_iff`). -/
def isAnc (P : Part α σ) (i j : Nat) : Bool := isAncF P i j j

/-! ### The effect of one `receive_reward` (used by C06 and C04) -/

/-- A payload refresh which credits nothing: count, reward list, variance and `tau` are kept;
the mean is kept or recomputed from the (unchanged) reward list; `u`/`b` may change. -/
def Soft (mo : List R → Nat → S) (a b : TBSt R S) : Prop :=
  b.count = a.count ∧ b.rewards = a.rewards ∧ b.var = a.var ∧ b.tau = a.tau ∧
    (b.mean = a.mean ∨ (a.count ≠ 0 ∧ b.mean = mo a.rewards a.count))

/-- The payload `b` is `a` after crediting the reward `r` once: count, reward list, mean (and,
for VHCT, variance) are updated; `tau` is kept. -/
def Hit (mo : List R → Nat → S) (vo : Option (List R → S)) (r : R) (a b : TBSt R S) : Prop :=
  b.count = a.count + 1 ∧ b.rewards = a.rewards ++ [r] ∧ b.tau = a.tau ∧
    b.mean = mo (a.rewards ++ [r]) (a.count + 1) ∧
    b.var = (match vo with | some f => f (a.rewards ++ [r]) | none => a.var)

/-- `RecvEffect … hit P P' last grew`: the tree `P'` is `P` after one `receive_reward(r)` which
credits the cells `hit` and (iff `grew`) splits the cell `last`. -/
structure RecvEffect (mo : List R → Nat → S) (vo : Option (List R → S)) (r : R) (s0 : TBSt R S)
    (hit : Nat → Prop) (P P' : Part α (TBSt R S)) (last : Nat) (grew : Bool) : Prop where
  kind : P'.kind = P.kind
  dimn : Tree.dimn P' = Tree.dimn P
  len : P'.nodes.length = P.nodes.length + (if grew then Tree.K P else 0)
  /-- old cells: skeleton kept (except the child list of the split cell), payload credited -/
  old : ∀ (i : Nat) (nd : Node α (TBSt R S)), P.nodes[i]? = some nd →
    ∃ nd', P'.nodes[i]? = some nd' ∧
      nd'.depth = nd.depth ∧ nd'.index = nd.index ∧ nd'.parent = nd.parent ∧ nd'.box = nd.box ∧
      (¬ (i = last ∧ grew = true) → nd'.children = nd.children) ∧
      (i = last → grew = true → nd.children = none ∧
        nd'.children = some (List.range' P.nodes.length (Tree.K P))) ∧
      (hit i → Hit mo vo r nd.st nd'.st) ∧ (¬ hit i → Soft mo nd.st nd'.st)
  /-- new cells: `K` fresh leaves under `last` -/
  new : grew = true → ∃ ln, P.nodes[last]? = some ln ∧ ∀ j, j < Tree.K P →
    ∃ cn, P'.nodes[P.nodes.length + j]? = some cn ∧ cn.depth = ln.depth + 1 ∧
      cn.parent = some last ∧ cn.children = none ∧ cn.st = s0

/-! ### Inputs of the loop -/

/-- The draws offered to one `receive` (or to `init`): at least one, all well-formed. -/
def DrawsOK (k : Kind) (dimn : Nat) (ds : List (Draw α)) : Prop :=
  1 ≤ ds.length ∧ ∀ d ∈ ds, Tree.DrawOKLen k dimn d

/-- The inputs of a run: one reward and one list of well-formed draws per round. -/
def InputsOK (k : Kind) (dimn : Nat) (inputs : List (R × List (Draw α))) : Prop :=
  ∀ x ∈ inputs, DrawsOK k dimn x.2

instance (k : Kind) (n : Nat) (ds : List (Draw α)) : Decidable (DrawsOK k n ds) := by
  unfold DrawsOK; infer_instance

instance (k : Kind) (n : Nat) (inputs : List (R × List (Draw α))) :
    Decidable (InputsOK k n inputs) := by
  unfold InputsOK; infer_instance

/-- Sum of `visited_times` over all cells. -/
def sumCounts (P : Part α (TBSt R S)) : Nat := (P.nodes.map (fun nd => nd.st.count)).sum

end TBA

/-! ## T-HOO -/

namespace HOO
variable {α R S : Type} [Add α] [Sub α] [Mul α] [Div α] [OfNat α 2] [NatCast α]
variable [LE S] [DecidableLE S] [Max S] [Min S] [Inhabited S] [Inhabited R]

/-- One round of the ask/tell loop: `pull`, then `receive_reward(r)`; returns the new state
and the id of the pulled cell. -/
def round (cfg : HOOCfg R S) (s : HOO α R S) (r : R) (ds : List (Draw α)) :
    Except Err (HOO α R S × Nat) :=
  match pull s with
  | .error e => .error e
  | .ok (s1, v) =>
    match receive cfg s1 r ds with
    | .error e => .error e
    | .ok (s2, _) => .ok (s2, v)

/-- The loop: returns the final state and the history of (pulled cell id, reward). -/
def runRounds (cfg : HOOCfg R S) (s : HOO α R S) :
    List (R × List (Draw α)) → Except Err (HOO α R S × List (Nat × R))
  | [] => .ok (s, [])
  | (r, ds) :: rest =>
    match round cfg s r ds with
    | .error e => .error e
    | .ok (s1, v) =>
      match runRounds cfg s1 rest with
      | .error e => .error e
      | .ok (s2, H) => .ok (s2, (v, r) :: H)

/-- Construction followed by the loop. -/
def run (cfg : HOOCfg R S) (k : Kind) (domain : Box α) (ds0 : List (Draw α))
    (inputs : List (R × List (Draw α))) : Except Err (HOO α R S × List (Nat × R)) :=
  match init cfg k domain ds0 with
  | .error e => .error e
  | .ok (s0, _) => runRounds cfg s0 inputs

/-- Invariant between rounds. -/
def Inv (cfg : HOOCfg R S) (s : HOO α R S) : Prop := TBA.PInv cfg.meanOf s.P

/-- Invariant between `pull` and `receive`: additionally the stored path is a root-to-leaf
chain. -/
structure Ready (cfg : HOOCfg R S) (s : HOO α R S) (path : List Nat) (last : Nat) : Prop where
  inv : Inv cfg s
  stored : s.path = some path
  isPath : TBA.IsPath s.P path
  lastEq : path.getLast? = some last
  leaf : s.P.isLeaf last = true

/-- The clauses of C04 for T-HOO (`s` = final state, `H` = history of (pulled id, reward)). -/
structure Credited (cfg : HOOCfg R S) (s : HOO α R S) (H : List (Nat × R)) : Prop where
  /-- every pulled id is a cell of the final tree -/
  pulled_valid : ∀ e ∈ H, e.1 < s.P.nodes.length
  /-- clause 2: the rewards of cell `i` are exactly those of the rounds which pulled a cell of
  the subtree of `i` -/
  rewards : ∀ i, i < s.P.nodes.length →
    (s.P.stOf i).rewards = (H.filter (fun e => TBA.isAnc s.P i e.1)).map (·.2)
  /-- clause 3 -/
  count : ∀ i, i < s.P.nodes.length → (s.P.stOf i).count = (s.P.stOf i).rewards.length
  mean : ∀ i, i < s.P.nodes.length → (s.P.stOf i).count > 0 →
    (s.P.stOf i).mean = cfg.meanOf (s.P.stOf i).rewards (s.P.stOf i).count
  /-- clause 4: nothing is lost -/
  root_total : (s.P.stOf 0).count = H.length

end HOO

/-! ## HCT / VHCT -/

namespace HCT
variable {α R S : Type} [Add α] [Sub α] [Mul α] [Div α] [OfNat α 2] [NatCast α]
variable [LE S] [DecidableLE S] [Max S] [Min S] [Inhabited S] [Inhabited R]

def round (cfg : HCTCfg R S) (s : HCT α R S) (r : R) (ds : List (Draw α)) :
    Except Err (HCT α R S × Nat) :=
  match pull cfg s with
  | .error e => .error e
  | .ok (s1, v) =>
    match receive cfg s1 r ds with
    | .error e => .error e
    | .ok (s2, _) => .ok (s2, v)

def runRounds (cfg : HCTCfg R S) (s : HCT α R S) :
    List (R × List (Draw α)) → Except Err (HCT α R S × List (Nat × R))
  | [] => .ok (s, [])
  | (r, ds) :: rest =>
    match round cfg s r ds with
    | .error e => .error e
    | .ok (s1, v) =>
      match runRounds cfg s1 rest with
      | .error e => .error e
      | .ok (s2, H) => .ok (s2, (v, r) :: H)

def run (cfg : HCTCfg R S) (k : Kind) (domain : Box α) (ds0 : List (Draw α))
    (inputs : List (R × List (Draw α))) : Except Err (HCT α R S × List (Nat × R)) :=
  match init cfg k domain ds0 with
  | .error e => .error e
  | .ok (s0, _) => runRounds cfg s0 inputs

/-- Invariant between rounds (VHCT: also the variance bookkeeping). -/
structure Inv (cfg : HCTCfg R S) (s : HCT α R S) : Prop where
  pinv : TBA.PInv cfg.meanOf s.P
  var : cfg.variance = true → ∀ (i : Nat) (nd : Node α (TBSt R S)), s.P.nodes[i]? = some nd →
    TBA.GoodVar cfg.varOf nd.st

/-- Invariant between `pull` and `receive`: the stored path is a root-to-cell chain and (HCT)
the threshold table `tau_h` covers every depth of the tree. -/
structure Ready (cfg : HCTCfg R S) (s : HCT α R S) (path : List Nat) (last : Nat) : Prop where
  inv : Inv cfg s
  stored : s.path = some path
  isPath : TBA.IsPath s.P path
  lastEq : path.getLast? = some last
  tauLen : cfg.variance = false → s.tauH.length = s.P.depth + 1

/-- The variance function, present for VHCT only. -/
def voOf (cfg : HCTCfg R S) : Option (List R → S) :=
  if cfg.variance then some cfg.varOf else none

/-- The threshold against which the pulled cell `nd` is tested: `tau_h[depth]` for HCT, the
cell's stored `tau` for VHCT. -/
def IsThr (cfg : HCTCfg R S) (s : HCT α R S) (nd : Node α (TBSt R S)) (thr : S) : Prop :=
  (cfg.variance = true → thr = nd.st.tau) ∧ (cfg.variance = false → s.tauH[nd.depth]? = some thr)

/-- The clauses of C04 for HCT / VHCT (`s` = final state, `H` = history of (pulled id,
reward)). -/
structure Credited (cfg : HCTCfg R S) (s : HCT α R S) (H : List (Nat × R)) : Prop where
  /-- every pulled id is a cell of the final tree -/
  pulled_valid : ∀ e ∈ H, e.1 < s.P.nodes.length
  /-- clause 1: the rewards of cell `i` are exactly those of the rounds which pulled `i` -/
  rewards : ∀ i, i < s.P.nodes.length →
    (s.P.stOf i).rewards = (H.filter (fun e => decide (e.1 = i))).map (·.2)
  /-- clause 3 -/
  count : ∀ i, i < s.P.nodes.length → (s.P.stOf i).count = (s.P.stOf i).rewards.length
  mean : ∀ i, i < s.P.nodes.length → (s.P.stOf i).count > 0 →
    (s.P.stOf i).mean = cfg.meanOf (s.P.stOf i).rewards (s.P.stOf i).count
  var : cfg.variance = true → ∀ i, i < s.P.nodes.length → (s.P.stOf i).count > 0 →
    (s.P.stOf i).var = cfg.varOf (s.P.stOf i).rewards
  /-- clause 4: nothing is lost -/
  total : TBA.sumCounts s.P = H.length

end HCT
end PyXAB
