/-
  Spec-level definitions for property C03 (partition-tree bookkeeping):
  reachability, the structural invariant `WF`, well-formed draws, and the language of
  operations (`make_children` on a leaf with the correct `newlayer` flag, `deepen`).
-/
import PyXABModel.Model.Partition

namespace PyXAB
namespace Tree

variable {α σ : Type}

/-- Dimension of the search space = length of the root box (0 for the empty arena). -/
def dimn (P : Part α σ) : Nat :=
  match P.nodes[0]? with
  | some r => r.box.length
  | none => 0

/-- The arity `K` of the partition: constant over a run. -/
def K (P : Part α σ) : Nat := P.kind.arity (dimn P)

/-- The ids stored in the deepest per-depth list `node_list[depth]`. -/
def lastLayer (P : Part α σ) : List Nat := (P.layers[P.depth]?).getD []

/-- A draw is well-formed for a class of partition of a `dimn`-dimensional box: the split
dimension is in range, enough split points are supplied, and `K ≥ 1`. -/
def DrawOKLen (k : Kind) (dimn : Nat) (d : Draw α) : Prop :=
  match k with
  | .binary => d.dim < dimn
  | .randBinary => d.dim < dimn ∧ 1 ≤ d.pts.length
  | .dimBinary => True
  | .kary K => d.dim < dimn ∧ 1 ≤ K
  | .randKary K => d.dim < dimn ∧ 1 ≤ K ∧ K - 1 ≤ d.pts.length

instance (k : Kind) (n : Nat) (d : Draw α) : Decidable (DrawOKLen k n d) :=
  match k with
  | .binary => inferInstanceAs (Decidable (d.dim < n))
  | .randBinary => inferInstanceAs (Decidable (d.dim < n ∧ 1 ≤ d.pts.length))
  | .dimBinary => inferInstanceAs (Decidable True)
  | .kary K => inferInstanceAs (Decidable (d.dim < n ∧ 1 ≤ K))
  | .randKary K => inferInstanceAs (Decidable (d.dim < n ∧ 1 ≤ K ∧ K - 1 ≤ d.pts.length))

/-- `Reach P i`: node id `i` is reachable from the root (id 0) through `children` links. -/
inductive Reach (P : Part α σ) : Nat → Prop
  | root : Reach P 0
  | step {p c : Nat} {nd : Node α σ} {cs : List Nat} :
      Reach P p → P.nodes[p]? = some nd → nd.children = some cs → c ∈ cs → Reach P c

/-- The structural invariant of the partition tree (ids are positions in `nodes`). -/
structure WF (P : Part α σ) : Prop where
  /-- W1: the root. -/
  root : ∃ r, P.nodes[0]? = some r ∧ r.depth = 0 ∧ r.index = 1 ∧ r.parent = none
  /-- W0: all boxes have the dimension of the root box. -/
  boxlen : ∀ (i : Nat) (nd : Node α σ), P.nodes[i]? = some nd → nd.box.length = dimn P
  /-- W2: every non-root id has an earlier parent which lists it as a child, one level up. -/
  parent : ∀ (c : Nat) (nd : Node α σ), 0 < c → P.nodes[c]? = some nd →
    ∃ p pn cs, nd.parent = some p ∧ p < c ∧ P.nodes[p]? = some pn ∧ pn.children = some cs ∧
      c ∈ cs ∧ nd.depth = pn.depth + 1
  /-- W3 + W5: a child list is a block of `K` consecutive later ids, all of which name the
  owner as their parent and carry the consecutive indices `K(i-1)+1 .. Ki`. -/
  children : ∀ (p : Nat) (pn : Node α σ) (cs : List Nat), P.nodes[p]? = some pn → pn.children = some cs →
    1 ≤ K P ∧ ∃ a, p < a ∧ cs = List.range' a (K P) ∧ a + K P ≤ P.nodes.length ∧
      ∀ j, j < K P → ∃ cn, P.nodes[a + j]? = some cn ∧ cn.parent = some p ∧
        cn.index = K P * (pn.index - 1) + j + 1
  /-- indices are 1-based -/
  index_pos : ∀ (i : Nat) (nd : Node α σ), P.nodes[i]? = some nd → 1 ≤ nd.index
  /-- W4a -/
  layers_len : P.layers.length = P.depth + 1
  /-- W4b: layer `h` lists exactly the ids of depth `h`, in increasing (= creation) order,
  and is non-empty. -/
  layers_mem : ∀ h l, P.layers[h]? = some l →
    l.Pairwise (· < ·) ∧ l ≠ [] ∧ ∀ i, i ∈ l ↔ ∃ nd : Node α σ, P.nodes[i]? = some nd ∧ nd.depth = h
  /-- W4c -/
  depth_le : ∀ (i : Nat) (nd : Node α σ), P.nodes[i]? = some nd → nd.depth ≤ P.depth

/-! ### The effect of one legal expansion, stated extensionally (the "frame facts") -/

/-- `Step P P' s0 p nd`: `P'` is `P` after splitting the node `nd` stored at id `p`:
old nodes are unchanged except for the child list of `p`, exactly `K` new leaves with payload
`s0`, depth `nd.depth + 1`, parent `p` and the consecutive indices are appended, and the new ids
are filed in layer `nd.depth + 1` (a fresh one iff `nd` was in the deepest layer). -/
structure Step (P P' : Part α σ) (s0 : σ) (p : Nat) (nd : Node α σ) : Prop where
  kind_eq : P'.kind = P.kind
  len : P'.nodes.length = P.nodes.length + K P
  old : ∀ i, i ≠ p → i < P.nodes.length → P'.nodes[i]? = P.nodes[i]?
  atp : P'.nodes[p]? = some { nd with children := some (List.range' P.nodes.length (K P)) }
  new : ∀ j, j < K P → ∃ cn, P'.nodes[P.nodes.length + j]? = some cn ∧
    cn.depth = nd.depth + 1 ∧ cn.index = K P * (nd.index - 1) + j + 1 ∧ cn.parent = some p ∧
    cn.children = none ∧ cn.box.length = dimn P ∧ cn.st = s0
  layers :
    (nd.depth = P.depth ∧ P'.layers = P.layers ++ [List.range' P.nodes.length (K P)] ∧
      P'.depth = P.depth + 1) ∨
    (nd.depth < P.depth ∧
      P'.layers = P.layers.modify (nd.depth + 1) (· ++ List.range' P.nodes.length (K P)) ∧
      P'.depth = P.depth)

/-! ### The user-facing clauses of property C03 -/

/-- The clauses of C03 for a state `P`, stated without reference to the invariant. -/
structure Clauses (P : Part α σ) : Prop where
  /-- (a) the per-depth lists contain exactly the reachable cells, at the position of their
  own depth -/
  listed : ∀ (h : Nat) (l : List Nat), P.layers[h]? = some l → ∀ i, i ∈ l ↔
    Reach P i ∧ ∃ nd : Node α σ, P.nodes[i]? = some nd ∧ nd.depth = h
  /-- (a) every cell ever created is reachable (and only those) -/
  reach_valid : ∀ i, Reach P i ↔ i < P.nodes.length
  /-- (a) each cell is listed once -/
  once : P.layers.flatten.Nodup
  /-- (b) a cell is its parent's child and vice versa -/
  child_parent : ∀ (p c : Nat) (pn cn : Node α σ), P.nodes[p]? = some pn →
    P.nodes[c]? = some cn → ((∃ cs, pn.children = some cs ∧ c ∈ cs) ↔ cn.parent = some p)
  /-- (b) no child list contains a cell created by splitting another cell -/
  disjoint : ∀ (p q : Nat) (pn qn : Node α σ) (cs cs' : List Nat), P.nodes[p]? = some pn →
    P.nodes[q]? = some qn → pn.children = some cs → qn.children = some cs' → p ≠ q →
    ∀ c, c ∈ cs → c ∉ cs'
  /-- (c) the reported depth is the deepest non-empty level -/
  depth_deepest : P.layers.length = P.depth + 1 ∧ ∀ l ∈ P.layers, l ≠ []
  /-- (d) labels `(depth, index)` are unique -/
  label_inj : ∀ (i j : Nat) (ni nj : Node α σ), P.nodes[i]? = some ni → P.nodes[j]? = some nj →
    ni.depth = nj.depth → ni.index = nj.index → i = j
  /-- (e) the children of the cell with index `i` carry `K(i-1)+1 .. Ki` in list order -/
  child_idx : ∀ (p : Nat) (pn : Node α σ) (cs : List Nat), P.nodes[p]? = some pn →
    pn.children = some cs → cs.length = K P ∧ 1 ≤ cs.length ∧ 1 ≤ pn.index ∧
      ∀ j c, cs[j]? = some c → ∃ cn : Node α σ, P.nodes[c]? = some cn ∧
        cn.index = cs.length * (pn.index - 1) + j + 1

/-- Unwrap a result (for the concrete examples). -/
def getOk [Inhabited β] : Except Err β → β
  | .ok x => x
  | .error _ => default

/-! ### Operation language -/

/-- One user-level operation on the partition. -/
inductive POp (α : Type) where
  /-- `make_children(p, newlayer = (p is at the current deepest level))` -/
  | mk (p : Nat) (d : Draw α)
  /-- `deepen()` with the recorded random draws -/
  | deepen (ds : List (Draw α))

section ops
variable [Add α] [Sub α] [Mul α] [Div α] [OfNat α 2] [NatCast α]

/-- Apply one operation. `mk p` computes the `newlayer` flag as the callers in PyXAB do. -/
def step (s0 : σ) (P : Part α σ) : POp α → Except Err (Part α σ)
  | .mk p d =>
    match P.nodes[p]? with
    | none => .error .badId
    | some nd => P.makeChildren s0 p (decide (nd.depth ≥ P.depth)) d
  | .deepen ds =>
    match P.deepen s0 ds with
    | .ok (P', _) => .ok P'
    | .error e => .error e

/-- Apply a sequence of operations, stopping at the first exception. -/
def run (s0 : σ) (P : Part α σ) : List (POp α) → Except Err (Part α σ)
  | [] => .ok P
  | op :: ops =>
    match step s0 P op with
    | .ok P' => run s0 P' ops
    | .error e => .error e

/-- Legality of one operation in state `P`: the target is a leaf and the draw is well-formed;
`deepen` gets at least one well-formed draw per node of the deepest layer. -/
def LegalOp (P : Part α σ) : POp α → Prop
  | .mk p d => P.isLeaf p = true ∧ DrawOKLen P.kind (dimn P) d
  | .deepen ds => (lastLayer P).length ≤ ds.length ∧ ∀ d ∈ ds, DrawOKLen P.kind (dimn P) d

instance (P : Part α σ) (op : POp α) : Decidable (LegalOp P op) :=
  match op with
  | .mk p d => inferInstanceAs (Decidable (P.isLeaf p = true ∧ DrawOKLen P.kind (dimn P) d))
  | .deepen ds => inferInstanceAs (Decidable ((lastLayer P).length ≤ ds.length ∧
      ∀ d ∈ ds, DrawOKLen P.kind (dimn P) d))

/-- Legality of a sequence: each operation is legal in the state it is applied to. -/
def Legal (s0 : σ) (P : Part α σ) : List (POp α) → Prop
  | [] => True
  | op :: ops => LegalOp P op ∧
    match step s0 P op with
    | .ok P' => Legal s0 P' ops
    | .error _ => True

/-- `Legal` is decidable (used by the concrete non-vacuity examples). -/
def decLegal (s0 : σ) : (P : Part α σ) → (ops : List (POp α)) → Decidable (Legal s0 P ops)
  | _, [] => isTrue trivial
  | P, op :: ops =>
    match h : step s0 P op with
    | .ok P' =>
      have := decLegal s0 P' ops
      decidable_of_iff (LegalOp P op ∧ Legal s0 P' ops) (by simp [Legal, h])
    | .error _ => decidable_of_iff (LegalOp P op) (by simp [Legal, h])

instance (s0 : σ) (P : Part α σ) (ops : List (POp α)) : Decidable (Legal s0 P ops) :=
  decLegal s0 P ops

end ops
end Tree
end PyXAB
