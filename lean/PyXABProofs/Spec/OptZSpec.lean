/-
  Spec-level definitions for the *optimism* lemma of the Zooming analysis
  (`Props/ZoomingOptimism.lean`).  Nothing in this file is proved.

  * `OPTZ.CoversAt s xstar a`: the active arm `a` of the state `s` is responsible for `xstar`:
    it is an arm of `s` and the closed box of its cell contains `xstar`;
  * `OPTZ.Optimistic cfg s ph xstar fstar`: every active arm whose cell contains `xstar` has an
    index `cfg.indexOf avg ph pulls` (in phase `ph`) `≥ fstar`.  In the regret analysis this is
    the high-probability event "mean + confidence radius + radius of the cell ≥ f*" for the arms
    whose cell contains a maximiser; here it is a hypothesis on the state.
-/
import PyXABProofs.Spec.ZoomSpec

namespace PyXAB
namespace OPTZ
open ZM

variable {α R S : Type}

/-- The arm `a` is an active arm of `s` whose cell (closed box) contains `xstar`. -/
def CoversAt [LE α] (s : Zooming α S) (xstar : List α) (a : Arm α S) : Prop :=
  a ∈ s.arms ∧ Box.Mem (cellBox s.P a.cell) xstar

/-- **Optimistic state** (at phase `ph`): every active arm whose cell contains `xstar` has index
`cfg.indexOf avg ph pulls ≥ fstar`. -/
def Optimistic [LE α] [LE S] (cfg : ZoomCfg R S) (s : Zooming α S) (ph : Nat) (xstar : List α)
    (fstar : S) : Prop :=
  ∀ a ∈ s.arms, Box.Mem (cellBox s.P a.cell) xstar → fstar ≤ idx cfg ph a

end OPTZ
end PyXAB
