/-
  Spec-level definitions for properties C08 / C07 (layer-sweep optimisers SOO, DOO, StoSOO):

  * scores of leaves, "last maximal element of a list" (`IsLastMax`), the first unevaluated
    leaf in top-down order (`firstUnvisited`), "all leaves of the layers above `h` are
    evaluated" (`LowVisited`);
  * `Ext ρ s0 P P'`: the tree `P'` extends `P` (old cells keep their skeleton, a child list
    once set is never changed, payloads are related by `ρ`, new cells carry a payload related
    to the initial payload `s0`);
  * instrumented versions (`sweepT`, `sweepsT`, `loopT`, `pullT`) of the loops of the model,
    which additionally return the list of expansion events (layer, expanded id, its score,
    the partition just BEFORE that expansion); `Lemmas/SW_Erase.lean` proves that forgetting the
    events gives back the model functions;
  * the documented ask/tell loop (`round`, `runRounds`, `run`) with its history of
    (handed-out cell, reward);
  * the invariants.
-/
import Mathlib.Order.Defs.LinearOrder
import PyXABModel.Model.Sweep
import PyXABProofs.Spec.Tree

namespace PyXAB
namespace SW
open Tree

variable {α σ S : Type}

/-! ### Scores, last maxima, top-down order -/

/-- The score `sc st` of the cell `w` if `w` is a leaf of `P` (`none` for internal cells and
dangling ids). -/
def leafScore (P : Part α σ) (sc : σ → S) (w : Nat) : Option S :=
  match P.nodes[w]? with
  | some nd => if nd.children.isNone then some (sc nd.st) else none
  | none => none

/-- The score `sc st` of any cell `w` of `P`. -/
def nodeScore (P : Part α σ) (sc : σ → S) (w : Nat) : Option S :=
  match P.nodes[w]? with
  | some nd => some (sc nd.st)
  | none => none

/-- `m` is the LAST element of the list `l` whose score is maximal (`x` is that score):
scored elements before `m` have a score `≤ x`, scored elements after `m` a score `< x`.
This is what the Python loops `if value >= max_value: max_value, max_node = value, node`
compute. -/
def IsLastMax [LE S] [LT S] (f : Nat → Option S) (l : List Nat) (m : Nat) (x : S) : Prop :=
  ∃ pre post, l = pre ++ m :: post ∧ f m = some x ∧
    (∀ w ∈ pre, ∀ y, f w = some y → y ≤ x) ∧ (∀ w ∈ post, ∀ y, f w = some y → y < x)

/-- `w` is a leaf of `P` whose payload satisfies `p`. -/
def leafTest (P : Part α σ) (p : σ → Bool) (w : Nat) : Bool :=
  match P.nodes[w]? with
  | some nd => nd.children.isNone && p nd.st
  | none => false

/-- `w` is a leaf which has not been evaluated (SOO / DOO). -/
def unvisitedLeaf (P : Part α (SwSt S)) (w : Nat) : Bool :=
  leafTest P (fun st => !st.visited) w

/-- The first unevaluated leaf in top-down order (layer by layer, list order in a layer). -/
def firstUnvisited (P : Part α (SwSt S)) : Option Nat :=
  P.layers.flatten.find? (unvisitedLeaf P)

/-- Every leaf of the layers `< h` has been evaluated. -/
def LowVisited (P : Part α (SwSt S)) (h : Nat) : Prop :=
  ∀ (h' : Nat) (l : List Nat) (w : Nat), h' < h → P.layers[h']? = some l → w ∈ l →
    unvisitedLeaf P w = false

/-- `visited := True` -/
def mark (P : Part α (SwSt S)) (v : Nat) : Part α (SwSt S) :=
  P.modifySt v (fun s => { s with visited := true })

/-! ### Growth of the tree -/

/-- `P'` extends `P`: same kind and dimension, old cells keep depth / index / parent / box, a
child list which is set is never changed (so only leaves are split), payloads of old cells are
related by `ρ`, and the payload of every new cell is related to the initial payload `s0`. -/
structure Ext (ρ : σ → σ → Prop) (s0 : σ) (P P' : Part α σ) : Prop where
  kind : P'.kind = P.kind
  dimn : dimn P' = dimn P
  len : P.nodes.length ≤ P'.nodes.length
  depth : P.depth ≤ P'.depth
  old : ∀ (i : Nat) (nd : Node α σ), P.nodes[i]? = some nd →
    ∃ nd', P'.nodes[i]? = some nd' ∧ nd'.depth = nd.depth ∧ nd'.index = nd.index ∧
      nd'.parent = nd.parent ∧ nd'.box = nd.box ∧
      (nd.children ≠ none → nd'.children = nd.children) ∧ ρ nd.st nd'.st
  new : ∀ (i : Nat) (nd' : Node α σ), P.nodes.length ≤ i → P'.nodes[i]? = some nd' →
    ρ s0 nd'.st

/-- An expansion event of a `pull`. -/
structure Ev (α σ S : Type) where
  /-- the layer which was being scanned (= depth of the expanded cell) -/
  h : Nat
  /-- the expanded cell -/
  id : Nat
  /-- its score (SOO: reward; DOO, StoSOO: b-value) -/
  score : S
  /-- the partition just before the expansion -/
  before : Part α σ

/-- Along one sweep the layers strictly increase and the scores do not decrease. -/
def TraceMono [LE S] (tr : List (Ev α σ S)) : Prop :=
  tr.Pairwise (fun a b => a.h < b.h ∧ a.score ≤ b.score)

/-- Inputs of one round: `time`, the random draws offered to `pull`, the reward. -/
abbrev Input (α R : Type) := Nat × List (Draw α) × R

/-- Every round is offered at least one draw, all draws are well-formed. -/
def InputsOK {R : Type} (k : Kind) (dimn : Nat) (inputs : List (Input α R)) : Prop :=
  ∀ x ∈ inputs, 1 ≤ x.2.1.length ∧ ∀ d ∈ x.2.1, DrawOKLen k dimn d

instance {R : Type} (k : Kind) (n : Nat) (inputs : List (Input α R)) :
    Decidable (InputsOK k n inputs) := by
  unfold InputsOK; infer_instance

/-- Invariant of the SOO / DOO trees (`r0` is the initial stored reward): the tree invariant of
C03, every internal cell has been evaluated, and a cell which has not been evaluated still
stores the initial reward. -/
structure PInv (r0 : S) (P : Part α (SwSt S)) : Prop where
  wf : WF P
  internal : ∀ (i : Nat) (nd : Node α (SwSt S)), P.nodes[i]? = some nd → nd.children ≠ none →
    nd.st.visited = true
  fresh : ∀ (i : Nat) (nd : Node α (SwSt S)), P.nodes[i]? = some nd → nd.st.visited = false →
    nd.st.reward = r0

/-- History invariant of SOO / DOO (`H` = history of (handed-out cell, reward) of the rounds
completed so far): the evaluated cells are exactly the cells of the history, and the stored
reward of an evaluated cell is the reward it received. -/
structure HistOK (P : Part α (SwSt S)) (H : List (Nat × S)) : Prop where
  nodup : (H.map (·.1)).Nodup
  valid : ∀ e ∈ H, ∃ nd, P.nodes[e.1]? = some nd ∧ nd.st.visited = true ∧ nd.st.reward = e.2
  visited : ∀ (i : Nat) (nd : Node α (SwSt S)), P.nodes[i]? = some nd → nd.st.visited = true →
    i ∈ H.map (·.1)

end SW

/-! ## SOO -/

namespace SOO
open Tree SW
variable {α S : Type} [Add α] [Sub α] [Mul α] [Div α] [OfNat α 2] [NatCast α]
variable [LinearOrder S] [Inhabited S]

/-- `SOO.sweep` which also returns the expansion events. -/
def sweepT (negInf : S) (hmax : Nat) :
    Nat → Nat → S → Part α (SwSt S) → List (Draw α) →
    Except Err (Part α (SwSt S) × List (Draw α) × Option Nat × List (Ev α (SwSt S) S))
  | 0, _, _, _, _ => .error .outOfFuel
  | fuel + 1, h, vmax, P, ds =>
    if h ≤ min P.depth hmax then
      match P.layers[h]? with
      | none => .error .indexError
      | some layer =>
        match scan P layer negInf none with
        | .found id => .ok (mark P id, ds, some id, [])
        | .best maxv maxn =>
          if vmax ≤ maxv then
            match maxn with
            | some m =>
              match P.makeChildrenD (st0 negInf) m (decide (h ≥ P.depth)) ds with
              | .error e => .error e
              | .ok (P', ds') =>
                match sweepT negInf hmax fuel (h + 1) maxv P' ds' with
                | .error e => .error e
                | .ok (P'', ds'', r, tr) => .ok (P'', ds'', r, ⟨h, m, maxv, P⟩ :: tr)
            | none => sweepT negInf hmax fuel (h + 1) vmax P ds
          else sweepT negInf hmax fuel (h + 1) vmax P ds
    else .ok (P, ds, none, [])

/-- `SOO.sweeps` which also returns one list of expansion events per sweep. -/
def sweepsT (negInf : S) (hmax : Nat) :
    Nat → Part α (SwSt S) → List (Draw α) →
    Except Err (Part α (SwSt S) × List (Draw α) × Nat × List (List (Ev α (SwSt S) S)))
  | 0, _, _ => .error .outOfFuel
  | fuel + 1, P, ds =>
    match sweepT negInf hmax (P.depth + 3) 0 negInf P ds with
    | .error e => .error e
    | .ok (P', ds', some id, tr) => .ok (P', ds', id, [tr])
    | .ok (P', ds', none, tr) =>
      match sweepsT negInf hmax fuel P' ds' with
      | .error e => .error e
      | .ok (P'', ds'', id, trs) => .ok (P'', ds'', id, tr :: trs)

/-- `SOO.pull` which also returns the expansion events, one list per sweep. -/
def pullT (negInf : S) (s : SOO α S) (time : Nat) (ds : List (Draw α)) :
    Except Err (SOO α S × List (Draw α) × Nat × List (List (Ev α (SwSt S) S))) :=
  match sweepsT negInf s.hmax (s.P.nodes.length + 3) s.P ds with
  | .error e => .error e
  | .ok (P', ds', id, trs) =>
    .ok ({ s with P := P', iteration := time, curr := some id }, ds', id, trs)

/-- One round of the documented loop: `pull(time)`, then `receive_reward(r)`. -/
def round (negInf : S) (s : SOO α S) (x : Input α S) : Except Err (SOO α S × Nat) :=
  match pull negInf s x.1 x.2.1 with
  | .error e => .error e
  | .ok (s1, _, v) =>
    match receive s1 x.2.2 with
    | .error e => .error e
    | .ok s2 => .ok (s2, v)

/-- The loop: final state and history of (handed-out cell, reward), first round first. -/
def runRounds (negInf : S) (s : SOO α S) :
    List (Input α S) → Except Err (SOO α S × List (Nat × S))
  | [] => .ok (s, [])
  | x :: rest =>
    match round negInf s x with
    | .error e => .error e
    | .ok (s1, v) =>
      match runRounds negInf s1 rest with
      | .error e => .error e
      | .ok (s2, H) => .ok (s2, (v, x.2.2) :: H)

/-- Construction followed by the loop. -/
def run (negInf : S) (k : Kind) (domain : Box α) (hmax : Nat) (inputs : List (Input α S)) :
    Except Err (SOO α S × List (Nat × S)) :=
  runRounds negInf (init negInf k domain hmax) inputs

/-- Invariant of SOO (it holds between rounds and also between `pull` and `receive`). -/
structure Inv (negInf : S) (s : SOO α S) : Prop where
  pinv : PInv negInf s.P
  curr : ∀ c, s.curr = some c → ∃ nd, s.P.nodes[c]? = some nd ∧ nd.st.visited = true

/-- What holds of an expansion event of SOO. -/
structure EvOK (negInf : S) (hmax : Nat) (ev : Ev α (SwSt S) S) : Prop where
  pinv : PInv negInf ev.before
  hle : ev.h ≤ min ev.before.depth hmax
  /-- the expanded cell is the last cell of maximal stored reward among the leaves of its
  layer -/
  best : ∃ l, ev.before.layers[ev.h]? = some l ∧
    IsLastMax (leafScore ev.before (·.reward)) l ev.id ev.score
  /-- it is an evaluated leaf of depth `h` -/
  node : ∃ nd, ev.before.nodes[ev.id]? = some nd ∧ nd.children = none ∧
    nd.st.visited = true ∧ nd.st.reward = ev.score ∧ nd.depth = ev.h
  /-- every leaf of the layers `≤ h` has been evaluated -/
  low : LowVisited ev.before (ev.h + 1)

/-- How a sweep which started at layer `h` ended: either it handed out `v`, the first
unevaluated leaf of layer `hv` of the tree `Pb` while all leaves above were evaluated, and
marked it; or it ran through all layers `≤ min depth hmax` without finding one. -/
def SweepEnd (hmax h : Nat) (Pb P' : Part α (SwSt S)) : Option Nat → Prop
  | some v => P' = mark Pb v ∧ ∃ hv l, h ≤ hv ∧ hv ≤ min Pb.depth hmax ∧
      Pb.layers[hv]? = some l ∧ l.find? (unvisitedLeaf Pb) = some v ∧ LowVisited Pb hv
  | none => P' = Pb ∧ LowVisited Pb (min Pb.depth hmax + 1)

end SOO

/-! ## DOO -/

namespace DOO
open Tree SW
variable {α S : Type} [Add α] [Sub α] [Mul α] [Div α] [OfNat α 2] [NatCast α]
variable [LinearOrder S] [Inhabited S]

/-- `DOO.loop` which also returns the expansion events. -/
def loopT (cfg : DOOCfg α S) :
    Nat → Nat → S → Option Nat → Part α (SwSt S) → List (Draw α) →
    Except Err (Part α (SwSt S) × List (Draw α) × Nat × List (Ev α (SwSt S) S))
  | 0, _, _, _, _, _ => .error .outOfFuel
  | fuel + 1, h, maxv, maxn, P, ds =>
    if h ≤ P.depth then
      match cfg.delta P h with
      | .error e => .error e
      | .ok delta =>
        match P.layers[h]? with
        | none => .error .indexError
        | some layer =>
          match scan cfg delta layer P maxv maxn with
          | (P1, .found id) => .ok (mark P1 id, ds, id, [])
          | (P1, .best maxv' maxn') =>
            if h + 1 > P1.depth then
              match maxn' with
              | none => .error .noneDeref
              | some m =>
                match P1.nodes[m]? with
                | none => .error .badId
                | some nd =>
                  match P1.makeChildrenD (st0 cfg) m (decide (nd.depth ≥ P1.depth)) ds with
                  | .error e => .error e
                  | .ok (P2, ds') =>
                    match loopT cfg fuel 0 maxv' maxn' P2 ds' with
                    | .error e => .error e
                    | .ok (P3, ds'', id, tr) => .ok (P3, ds'', id, ⟨nd.depth, m, maxv', P1⟩ :: tr)
            else loopT cfg fuel (h + 1) maxv' maxn' P1 ds
    else .error .returnedNone

/-- `DOO.pull` which also returns the expansion events. -/
def pullT (cfg : DOOCfg α S) (s : DOO α S) (time : Nat) (ds : List (Draw α)) :
    Except Err (DOO α S × List (Draw α) × Nat × List (Ev α (SwSt S) S)) :=
  match loopT cfg (2 * s.P.depth + 8) 0 cfg.negInf none s.P ds with
  | .error e => .error e
  | .ok (P', ds', id, tr) =>
    .ok ({ s with P := P', iteration := time, curr := some id }, ds', id, tr)

def round (cfg : DOOCfg α S) (s : DOO α S) (x : Input α S) : Except Err (DOO α S × Nat) :=
  match pull cfg s x.1 x.2.1 with
  | .error e => .error e
  | .ok (s1, _, v) =>
    match receive s1 x.2.2 with
    | .error e => .error e
    | .ok s2 => .ok (s2, v)

def runRounds (cfg : DOOCfg α S) (s : DOO α S) :
    List (Input α S) → Except Err (DOO α S × List (Nat × S))
  | [] => .ok (s, [])
  | x :: rest =>
    match round cfg s x with
    | .error e => .error e
    | .ok (s1, v) =>
      match runRounds cfg s1 rest with
      | .error e => .error e
      | .ok (s2, H) => .ok (s2, (v, x.2.2) :: H)

def run (cfg : DOOCfg α S) (k : Kind) (domain : Box α) (inputs : List (Input α S)) :
    Except Err (DOO α S × List (Nat × S)) :=
  runRounds cfg (init cfg k domain) inputs

/-- Invariant of DOO (between rounds and between `pull` and `receive`). -/
structure Inv (cfg : DOOCfg α S) (s : DOO α S) : Prop where
  pinv : PInv cfg.reward0 s.P
  curr : ∀ c, s.curr = some c → ∃ nd, s.P.nodes[c]? = some nd ∧ nd.st.visited = true

/-- `self.delta(h)` never raises on a well-formed tree (hypothesis of the totality theorems). -/
def DeltaOK (cfg : DOOCfg α S) : Prop :=
  ∀ (P : Part α (SwSt S)) (h : Nat), WF P → h ≤ P.depth → ∃ δ, cfg.delta P h = .ok δ

/-- Two trees which differ in the stored `b_value`s only. -/
def BOnly (P P' : Part α (SwSt S)) : Prop :=
  P'.kind = P.kind ∧ P'.layers = P.layers ∧ P'.depth = P.depth ∧
    P'.nodes.length = P.nodes.length ∧
    ∀ (i : Nat) (nd : Node α (SwSt S)), P.nodes[i]? = some nd → ∃ nd', P'.nodes[i]? = some nd' ∧
      nd'.depth = nd.depth ∧ nd'.index = nd.index ∧ nd'.parent = nd.parent ∧
      nd'.children = nd.children ∧ nd'.box = nd.box ∧ nd'.st.visited = nd.st.visited ∧
      nd'.st.reward = nd.st.reward

/-- `self.delta(h)` does not read the stored `b_value`s (true of the code: it reads the boxes
of layer `h` only).  Under this hypothesis the `delta`s of `EvOK.deltas` are those of the tree
`ev.before` itself. -/
def DeltaStable (cfg : DOOCfg α S) : Prop :=
  ∀ (P P' : Part α (SwSt S)) (h : Nat), BOnly P P' → cfg.delta P' h = cfg.delta P h

/-- What holds of an expansion event of DOO. -/
structure EvOK (cfg : DOOCfg α S) (ev : Ev α (SwSt S) S) : Prop where
  pinv : PInv cfg.reward0 ev.before
  /-- every leaf of the tree has been evaluated -/
  low : LowVisited ev.before (ev.before.depth + 1)
  /-- the expanded cell is the last cell of maximal stored `b_value` among ALL leaves, in
  top-down order -/
  best : IsLastMax (leafScore ev.before (·.b)) ev.before.layers.flatten ev.id ev.score
  /-- the stored `b_value` of every leaf of depth `h'` is `reward + delta(h')`, for the `delta`
  computed during this pass (on a tree which differs from `ev.before` in `b_value`s only) -/
  deltas : ∀ h', h' ≤ ev.before.depth → ∃ Ph δ, BOnly Ph ev.before ∧ cfg.delta Ph h' = .ok δ ∧
    ∀ (w : Nat) (nd : Node α (SwSt S)), ev.before.nodes[w]? = some nd → nd.children = none →
      nd.depth = h' → nd.st.b = cfg.bOf nd.st.reward δ
  /-- it is an evaluated leaf of depth `h` -/
  node : ∃ nd, ev.before.nodes[ev.id]? = some nd ∧ nd.children = none ∧
    nd.st.visited = true ∧ nd.st.b = ev.score ∧ nd.depth = ev.h

end DOO

/-! ## StoSOO -/

namespace StoSOO
open Tree SW
variable {α R S : Type} [Add α] [Sub α] [Mul α] [Div α] [OfNat α 2] [NatCast α]
variable [LinearOrder S] [Inhabited S] [Inhabited R]

/-- `StoSOO.loop` which also returns the expansion events. -/
def loopT (cfg : StoCfg S R) (time : Nat) :
    Nat → Nat → S → Part α (TBSt R S) → List (Draw α) →
    Except Err (Part α (TBSt R S) × List (Draw α) × S × Nat × Nat × Nat ×
      List (Ev α (TBSt R S) S))
  | 0, _, _, _, _ => .error .outOfFuel
  | fuel + 1, h, bmax, P, ds =>
    if h ≤ min (P.depth + 1) cfg.hmax then
      if time ≤ cfg.n then
        match P.layers[h]? with
        | none => .error .indexError
        | some layer =>
          match scan cfg layer 0 P none with
          | (P1, none) => loopT cfg time fuel (h + 1) bmax P1 ds
          | (P1, some (j, id, b)) =>
            if bmax ≤ b then
              match P1.nodes[id]? with
              | none => .error .badId
              | some nd =>
                if cfg.countLT nd.st.count then .ok (P1, ds, bmax, h, j, id, [])
                else
                  match P1.makeChildrenD (st0 cfg) id (decide (h ≥ P1.depth)) ds with
                  | .error e => .error e
                  | .ok (P2, ds') =>
                    match loopT cfg time fuel (h + 1) b P2 ds' with
                    | .error e => .error e
                    | .ok (P3, ds'', bm, h', j', id', tr) =>
                      .ok (P3, ds'', bm, h', j', id', ⟨h, id, b, P1⟩ :: tr)
            else loopT cfg time fuel (h + 1) bmax P1 ds
      else .error .outOfFuel
    else .error .returnedNone

/-- `StoSOO.pull` which also returns the expansion events. -/
def pullT (cfg : StoCfg S R) (s : StoSOO α R S) (time : Nat) (ds : List (Draw α)) :
    Except Err (StoSOO α R S × List (Draw α) × Nat × List (Ev α (TBSt R S) S)) :=
  match loopT cfg time (s.P.depth + 4) 0 cfg.negInf s.P ds with
  | .error e => .error e
  | .ok (P', ds', bmax, h, j, id, tr) =>
    .ok ({ s with P := P', iteration := time, bmax := bmax, sel := some (h, j) }, ds', id, tr)

def round (cfg : StoCfg S R) (s : StoSOO α R S) (x : Input α R) :
    Except Err (StoSOO α R S × Nat) :=
  match pull cfg s x.1 x.2.1 with
  | .error e => .error e
  | .ok (s1, _, v) =>
    match receive cfg s1 x.2.2 with
    | .error e => .error e
    | .ok s2 => .ok (s2, v)

def runRounds (cfg : StoCfg S R) (s : StoSOO α R S) :
    List (Input α R) → Except Err (StoSOO α R S × List (Nat × R))
  | [] => .ok (s, [])
  | x :: rest =>
    match round cfg s x with
    | .error e => .error e
    | .ok (s1, v) =>
      match runRounds cfg s1 rest with
      | .error e => .error e
      | .ok (s2, H) => .ok (s2, (v, x.2.2) :: H)

def run (cfg : StoCfg S R) (k : Kind) (domain : Box α) (inputs : List (Input α R)) :
    Except Err (StoSOO α R S × List (Nat × R)) :=
  runRounds cfg (init cfg k domain) inputs

/-- Payloads related by the `b`-refresh of the scan: unchanged or refreshed by `computeB`. -/
def Refr (cfg : StoCfg S R) (a b : TBSt R S) : Prop := b = a ∨ b = computeB cfg a

/-- Invariant of the StoSOO tree: the tree invariant of C03; every internal cell has been
evaluated `k` times (`visited_times < k` is false); `visited_times = len(rewards)`; and no cell
has been evaluated more than `k` times (the evaluation which brought the count to `count` was
made when `count - 1 < k`). -/
structure PInv (cfg : StoCfg S R) (P : Part α (TBSt R S)) : Prop where
  wf : WF P
  internal : ∀ (i : Nat) (nd : Node α (TBSt R S)), P.nodes[i]? = some nd →
    nd.children ≠ none → cfg.countLT nd.st.count = false
  count : ∀ (i : Nat) (nd : Node α (TBSt R S)), P.nodes[i]? = some nd →
    nd.st.count = nd.st.rewards.length
  atMostK : ∀ (i : Nat) (nd : Node α (TBSt R S)), P.nodes[i]? = some nd →
    nd.st.count > 0 → cfg.countLT (nd.st.count - 1) = true

/-- Invariant between rounds. -/
def Inv (cfg : StoCfg S R) (s : StoSOO α R S) : Prop := PInv cfg s.P

/-- What `pull` guarantees about the handed-out cell `v` in the state `P` it returns, addressed
by `(h, j)`: it is the leaf `node_list[h][j]`, of depth `h ≤ h_max`, evaluated fewer than `k`
times, every leaf of its layer carries a refreshed `b`, and `v` is the last leaf of maximal `b`
of its layer. -/
structure Handed (cfg : StoCfg S R) (P : Part α (TBSt R S)) (h j v : Nat) : Prop where
  hle : h ≤ cfg.hmax
  addr : ∃ l, P.layers[h]? = some l ∧ l[j]? = some v ∧
    (∀ w ∈ l, ∀ nd, P.nodes[w]? = some nd → nd.children = none → nd.st = computeB cfg nd.st) ∧
    ∃ nd, P.nodes[v]? = some nd ∧ nd.children = none ∧ nd.depth = h ∧
      cfg.countLT nd.st.count = true ∧ IsLastMax (leafScore P (·.b)) l v nd.st.b

/-- Invariant between `pull` and `receive`. -/
structure Ready (cfg : StoCfg S R) (s : StoSOO α R S) (v : Nat) : Prop where
  pinv : PInv cfg s.P
  sel : ∃ h j, s.sel = some (h, j) ∧ Handed cfg s.P h j v

/-- What holds of an expansion event of StoSOO. -/
structure EvOK (cfg : StoCfg S R) (ev : Ev α (TBSt R S) S) : Prop where
  pinv : PInv cfg ev.before
  hle : ev.h ≤ min ev.before.depth cfg.hmax
  /-- every leaf of the layer carries a refreshed `b`, and the expanded cell is the last leaf
  of maximal `b` of its layer -/
  best : ∃ l, ev.before.layers[ev.h]? = some l ∧
    (∀ w ∈ l, ∀ nd, ev.before.nodes[w]? = some nd → nd.children = none →
      nd.st = computeB cfg nd.st) ∧
    IsLastMax (leafScore ev.before (·.b)) l ev.id ev.score
  /-- it is a leaf of depth `h` which has been evaluated `k` times -/
  node : ∃ nd, ev.before.nodes[ev.id]? = some nd ∧ nd.children = none ∧
    cfg.countLT nd.st.count = false ∧ nd.st.b = ev.score ∧ nd.depth = ev.h

end StoSOO
end PyXAB
