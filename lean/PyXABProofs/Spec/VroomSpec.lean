/-
  Spec-level definitions for property C13 (the `VROOM` algorithm).  Nothing in this file is
  proved.
-/
import PyXABModel.Model.VROOM
import PyXABProofs.Spec.Tree
import PyXABProofs.Spec.Geometry
import Mathlib.Algebra.Field.Defs

namespace PyXAB
namespace VR
open Tree

/-! ### Index arithmetic of the weight list -/

/-- Number of weights of the layers `1..h`: `Σ_{j=1..h} 2^j`. -/
def cumIdx : Nat → Nat
  | 0 => 0
  | h + 1 => cumIdx h + 2 ^ (h + 1)

/-- `Σ_{i<n} K^i`: number of draws consumed by `n` successive `deepen()` calls per cell of the
deepest layer -/
def geomSum (K : Nat) : Nat → Nat
  | 0 => 0
  | n + 1 => 1 + K * geomSum K n

/-- the value `cumProb` returns for a cell of depth `d` (weights `probs`, `search_depth = sd`):
the accumulated weight of the layers `1..d` if `d < sd`, and `pone` otherwise -/
def cumVal {R S : Type} (cfg : VrCfg R S) (probs : List S) (sd d : Nat) : S :=
  if d < sd then (probs.take (cumIdx d)).foldl cfg.padd cfg.pzero else cfg.pone

/-- The index list `[(h, l)]` built by the ranking stage when layer `h` has `2^h` cells. -/
def indexList (sd : Nat) : List (Nat × Nat) :=
  (List.range' 1 sd).flatMap (fun h => (List.range (2 ^ h)).map (fun l => (h, l)))

section payload
variable {α R S : Type}

/-- The rank key of cell `id` in the arena `P`: the lower confidence value `cfg.lcb` of the
rewards credited to the cell so far. -/
def key (cfg : VrCfg R S) (P : Part α (VrSt R S)) (id : Nat) : S := cfg.lcb (P.stOf id).rewards

/-- The rank most recently assigned to cell `id` (`node.ranks[-1]`), `0` if none. -/
def lastRank (P : Part α (VrSt R S)) (id : Nat) : Nat := (P.stOf id).ranks.getLast?.getD 0

/-- every cell carries the initial payload (no rewards, no ranks) -/
def AllSt0 (P : Part α (VrSt R S)) : Prop :=
  ∀ (i : Nat) (nd : Node α (VrSt R S)), P.nodes[i]? = some nd → nd.st = VROOM.st0

/-- the ids of layer `h` (`node_list[h]`), `[]` if there is no such layer -/
def layerAt {σ : Type} (P : Part α σ) (h : Nat) : List Nat := (P.layers[h]?).getD []

/-- the part of the index list contributed by a layer of `n` cells at depth `h` -/
def layerIndex (h n : Nat) : List (Nat × Nat) := (List.range n).map (fun l => (h, l))

/-- the weights of the cells of `layer` (depth `h`), read off the ranks stored in `P'` -/
def layerProbs (cfg : VrCfg R S) (P' : Part α (VrSt R S)) (h : Nat) (layer : List Nat) : List S :=
  layer.map (fun id => cfg.probOf h (lastRank P' id))

/-- the weight list built by the ranking stage (`P` before, `P'` after ranking) -/
def probList (cfg : VrCfg R S) (P P' : Part α (VrSt R S)) : List S :=
  (List.range' 1 cfg.sd).flatMap (fun h => layerProbs cfg P' h (layerAt P h))

/-- the index list built by the ranking stage -/
def idxList (sd : Nat) (P : Part α (VrSt R S)) : List (Nat × Nat) :=
  (List.range' 1 sd).flatMap (fun h => layerIndex h (layerAt P h).length)

/-- the payload update of `receive_reward`: reward `r`, cumulative weight `p`, position `i` of
the cell in the update list -/
def credit (cfg : VrCfg R S) (r : R) (p : S) (i : Nat) (st : VrSt R S) : VrSt R S :=
  { st with rewards := st.rewards ++ [r], tilde := st.tilde ++ [cfg.tildeOf r p i] }

/-- `a` occurs before `b` in `l`. -/
def Before (a b : Nat) (l : List Nat) : Prop := List.Sublist [a, b] l

/-- **What one call `self.rank(node_list[h])` does** to the arena (`P` before, `P'` after) for a
list `layer` of cell ids. -/
structure RankedLayer [LE S] [DecidableLE S] (cfg : VrCfg R S) (P P' : Part α (VrSt R S))
    (layer : List Nat) : Prop where
  kind : P'.kind = P.kind
  layers : P'.layers = P.layers
  depth : P'.depth = P.depth
  len : P'.nodes.length = P.nodes.length
  /-- every node keeps its tree fields, rewards and `tilde`; every cell of the layer got exactly
  one new rank appended; all other nodes are untouched -/
  node : ∀ (i : Nat) (nd : Node α (VrSt R S)), P.nodes[i]? = some nd →
    ∃ nd', P'.nodes[i]? = some nd' ∧ nd'.depth = nd.depth ∧ nd'.index = nd.index ∧
      nd'.parent = nd.parent ∧ nd'.children = nd.children ∧ nd'.box = nd.box ∧
      nd'.st.rewards = nd.st.rewards ∧ nd'.st.tilde = nd.st.tilde ∧
      (i ∉ layer → nd'.st = nd.st) ∧
      (i ∈ layer → nd'.st.ranks = nd.st.ranks ++ [lastRank P' i])
  /-- the new rank of a cell is its (1-based) position in the stable descending order -/
  rank_eq : ∀ i id, (VROOM.sortDesc (key cfg P) layer)[i]? = some id → lastRank P' id = i + 1
  /-- the new ranks of the layer are a permutation of `1..layer.length` -/
  perm : (layer.map (lastRank P')).Perm (List.range' 1 layer.length)
  /-- the ranks are non-increasing in the key -/
  mono : ∀ a b, a ∈ layer → b ∈ layer → lastRank P' a < lastRank P' b →
    key cfg P b ≤ key cfg P a
  /-- ties are broken by the position in the layer (Python's `sorted` is stable) -/
  stable : ∀ a b, Before a b layer → key cfg P a = key cfg P b → lastRank P' a < lastRank P' b

/-- **What the ranking stage of one `pull` does** to the arena (`P` before, `P'` after), for the
layers `hs` (`hs = [1, …, search_depth]`). -/
structure Ranked [LE S] (cfg : VrCfg R S) (hs : List Nat) (P P' : Part α (VrSt R S)) : Prop where
  /-- skeleton unchanged -/
  kind : P'.kind = P.kind
  layers : P'.layers = P.layers
  depth : P'.depth = P.depth
  len : P'.nodes.length = P.nodes.length
  /-- every node keeps its tree fields, its rewards and its `tilde` list; the cells of the
  ranked layers get exactly one new rank, all other cells are untouched -/
  node : ∀ (i : Nat) (nd : Node α (VrSt R S)), P.nodes[i]? = some nd →
    ∃ nd', P'.nodes[i]? = some nd' ∧ nd'.depth = nd.depth ∧ nd'.index = nd.index ∧
      nd'.parent = nd.parent ∧ nd'.children = nd.children ∧ nd'.box = nd.box ∧
      nd'.st.rewards = nd.st.rewards ∧ nd'.st.tilde = nd.st.tilde ∧
      (nd.depth ∉ hs → nd'.st = nd.st) ∧
      (nd.depth ∈ hs → nd'.st.ranks = nd.st.ranks ++ [lastRank P' i])
  /-- within each ranked layer the new ranks are a permutation of `1..(size of the layer)` -/
  perm : ∀ h ∈ hs, ((layerAt P h).map (lastRank P')).Perm (List.range' 1 (layerAt P h).length)
  /-- … non-increasing in the lower confidence value -/
  mono : ∀ h ∈ hs, ∀ a b, a ∈ layerAt P h → b ∈ layerAt P h → lastRank P' a < lastRank P' b →
    key cfg P b ≤ key cfg P a
  /-- … ties broken by list position -/
  stable : ∀ h ∈ hs, ∀ a b, Before a b (layerAt P h) → key cfg P a = key cfg P b →
    lastRank P' a < lastRank P' b

end payload

/-! ### Tree invariants of a VROOM state -/
section tree
variable {α σ : Type}

/-- every cell of depth `< sd` has been split -/
def Internal (sd : Nat) (P : Part α σ) : Prop :=
  ∀ (i : Nat) (nd : Node α σ), P.nodes[i]? = some nd → nd.depth < sd → nd.children ≠ none

/-- layer `h` has exactly `K^h` cells for every `h ≤ sd` (`K = 2`: `2^h`) -/
def LayersPow (sd : Nat) (P : Part α σ) : Prop :=
  ∀ h, h ≤ sd → ∃ l, P.layers[h]? = some l ∧ l.length = (K P) ^ h

/-- Geometry of the arena: every box is valid (`lo ≤ hi`), and the box of a cell is contained
in the box of its parent. -/
structure Geo [LE α] (P : Part α σ) : Prop where
  valid : ∀ (i : Nat) (nd : Node α σ), P.nodes[i]? = some nd → Box.Valid nd.box
  sub : ∀ (c : Nat) (cn : Node α σ) (p : Nat) (pn : Node α σ), P.nodes[c]? = some cn → cn.parent = some p → P.nodes[p]? = some pn →
    Box.Subset cn.box pn.box

/-- **The tree invariant of VROOM** (`sd` = `search_depth`): the C03 invariant, the tree has
been deepened to `sd`, every cell above depth `sd` is internal, geometry. -/
structure TInv [LE α] (sd : Nat) (P : Part α σ) : Prop where
  wf : WF P
  deep : sd ≤ P.depth
  internal : Internal sd P
  geo : Geo P

/-- `P'` is `P` after some legal expansions of cells of depth `≥ d`, new payloads `s0`:
old nodes keep all fields except that a leaf may have become internal; the new nodes lie
strictly below depth `d` and carry `s0`; the layers `≤ d` are untouched. -/
structure Grow (s0 : σ) (d : Nat) (P P' : Part α σ) : Prop where
  kind : P'.kind = P.kind
  dimn : dimn P' = dimn P
  len : P.nodes.length ≤ P'.nodes.length
  old : ∀ (i : Nat) (nd : Node α σ), P.nodes[i]? = some nd → ∃ nd', P'.nodes[i]? = some nd' ∧
    nd'.depth = nd.depth ∧ nd'.index = nd.index ∧ nd'.parent = nd.parent ∧ nd'.box = nd.box ∧
    nd'.st = nd.st ∧ (nd.children ≠ none → nd'.children = nd.children)
  new : ∀ (i : Nat) (nd' : Node α σ), P'.nodes[i]? = some nd' → P.nodes.length ≤ i → d < nd'.depth ∧ nd'.st = s0
  layers : ∀ h, h ≤ d → P'.layers[h]? = P.layers[h]?
  depth : P.depth ≤ P'.depth

section draws
variable [Add α] [Sub α] [Mul α] [Div α] [OfNat α 2] [NatCast α] [LE α]

/-- The draws consumed by one `deepen()`: one per cell of the deepest layer, in list order,
each well-formed and satisfying what NumPy guarantees for the box of its cell. -/
def DeepenDrawsOK (P : Part α σ) (ds : List (Draw α)) : Prop :=
  (lastLayer P).length ≤ ds.length ∧
  ∀ (j q : Nat) (nd : Node α σ) (d : Draw α), (lastLayer P)[j]? = some q → P.nodes[q]? = some nd → ds[j]? = some d →
    DrawOKLen P.kind (dimn P) d ∧ DrawOK P.kind nd.box d

/-- The draws consumed by the `while depth < search_depth: deepen()` loop of `__init__`. -/
def InitDrawsOK (s0 : σ) (sd : Nat) : Nat → Part α σ → List (Draw α) → Prop
  | 0, _, _ => True
  | fuel + 1, P, ds => P.depth < sd → DeepenDrawsOK P ds ∧
      ∀ P' ds', P.deepen s0 ds = .ok (P', ds') → InitDrawsOK s0 sd fuel P' ds'

end draws

/-- `IsPath P node path last`: `path` lists the cells visited below `node` by following child
links in `P` (each element is a child of its predecessor, the first one a child of `node`), and
`last` is the cell reached (`node` itself for the empty path). -/
def IsPath (P : Part α σ) : Nat → List Nat → Nat → Prop
  | node, [], last => last = node
  | node, c :: rest, last =>
    (∃ (nd : Node α σ) (cs : List Nat), P.nodes[node]? = some nd ∧ nd.children = some cs ∧ c ∈ cs) ∧
      IsPath P c rest last

end tree

/-! ### The random choices of the descent -/
section descent
variable {α R S : Type} [Add α] [Sub α] [Mul α] [Div α] [OfNat α 2] [NatCast α] [LE α]

/-- What NumPy guarantees about the random choices consumed by the descent
`while h < h_max` started at cell `node` of depth `h` in the arena `P` (the predicate follows
the execution, because the boxes of freshly created cells depend on the earlier draws):
there is one step per level; every child sign is a valid child position (`np.random.randint`);
whenever the current cell is a leaf the step carries a draw which is well-formed and satisfies
the guarantees of `DrawOK` for the box of that cell. -/
def DescOK (hmax : Nat) :
    List (Option (Draw α) × Nat) → Nat → Nat → Part α (VrSt R S) → Prop
  | [], h, _, _ => ¬ h < hmax
  | (od, sign) :: rest, h, node, P => h < hmax →
    sign < K P ∧ ∀ nd : Node α (VrSt R S), P.nodes[node]? = some nd →
      match nd.children with
      | some cs => ∀ c, cs[sign]? = some c → DescOK hmax rest (h + 1) c P
      | none => ∃ d, od = some d ∧ DrawOKLen P.kind (dimn P) d ∧ DrawOK P.kind nd.box d ∧
          ∀ P1 c, P.makeChildren VROOM.st0 node (decide (h ≥ P.depth)) d = .ok P1 →
            ((P1.nodes[node]?).bind (·.children)).bind (·[sign]?) = some c →
            DescOK hmax rest (h + 1) c P1

end descent

/-! ### `pull` and `receive` -/
section pullspec
variable {α R S : Type} [Add α] [Sub α] [Mul α] [Div α] [OfNat α 2] [NatCast α] [LE α] [LE S]

/-- the box of cell `c` (`[]` for a dangling id) -/
def boxOf {σ : Type} (P : Part α σ) (c : Nat) : Box α :=
  match P.nodes[c]? with
  | some nd => nd.box
  | none => []

/-- `np.random.choice` accepts the weights computed by the ranking stage of the next `pull` -/
def ProbAccepted (cfg : VrCfg R S) (s : VROOM α R S) : Prop :=
  ∀ P1, Ranked cfg (List.range' 1 cfg.sd) s.P P1 → cfg.probOK (probList cfg s.P P1) = true

/-- What NumPy guarantees about the random choices of one `pull`: the index returned by
`np.random.choice` is a position of the weight list, and the choices of the descent below the
cell it designates satisfy `DescOK` (in the arena `P1` produced by the ranking stage). -/
structure PullDrawsOK (cfg : VrCfg R S) (s : VROOM α R S) (dr : VDraw α) : Prop where
  choice : dr.choice < (idxList cfg.sd s.P).length
  desc : ∀ P1 h l node, Ranked cfg (List.range' 1 cfg.sd) s.P P1 →
    (idxList cfg.sd s.P)[dr.choice]? = some (h, l) → (layerAt s.P h)[l]? = some node →
    DescOK cfg.hmax dr.steps h node P1

/-- A draw whose guarantees do not depend on the box being split beyond its dimension (every
draw of `.binary`, `.kary K`, `.dimBinary` with `dim` in range). -/
def SimpleDraw {σ : Type} (P : Part α σ) (d : Draw α) : Prop :=
  DrawOKLen P.kind (dimn P) d ∧ ∀ b : Box α, b.length = dimn P → DrawOK P.kind b d

/-- **Everything one successful `pull` does.**  `s` is the state before, `s'` the state after,
`last` the returned cell; the witnesses are the arena `P1` after the ranking stage, the drawn
entry `(h, l)` of the index list, the drawn cell `node` and the descent `path` below it. -/
structure PullFacts (cfg : VrCfg R S) (s : VROOM α R S) (time : Nat) (dr : VDraw α)
    (s' : VROOM α R S) (last : Nat) (P1 : Part α (VrSt R S)) (h l node : Nat) (path : List Nat) :
    Prop where
  /-- the ranking stage -/
  ranked : Ranked cfg (List.range' 1 cfg.sd) s.P P1
  /-- the drawn entry of the index list -/
  drawn : (idxList cfg.sd s.P)[dr.choice]? = some (h, l)
  depth_range : 1 ≤ h ∧ h ≤ cfg.sd
  /-- the drawn cell is the `l`-th cell of layer `h` … -/
  cell : (layerAt s.P h)[l]? = some node
  /-- … it has depth `h` … -/
  cell_depth : ∃ nd, P1.nodes[node]? = some nd ∧ nd.depth = h
  /-- … and it was drawn with the weight computed from its new rank -/
  weight : s'.prob[dr.choice]? = some (cfg.probOf h (lastRank P1 node))
  prob_eq : s'.prob = probList cfg s.P P1
  iteration : s'.iteration = time
  /-- the drawn cell is recorded … -/
  curr : s'.curr = some node
  /-- … and the update list is the drawn cell followed by the descent path -/
  updateList : s'.updateList = node :: path
  tinv1 : TInv cfg.sd P1
  tinv : TInv cfg.sd s'.P
  /-- the descent only expands cells of depth `≥ search_depth` -/
  grow : Grow (VROOM.st0 (R := R) (S := S)) cfg.sd P1 s'.P
  /-- the path follows child links from the drawn cell to the returned cell … -/
  isPath : IsPath s'.P node path last
  /-- … down to the depth cap -/
  steps : path.length = cfg.hmax - h

/-- what `receive` needs from the state left by `pull` -/
structure PullPost (cfg : VrCfg R S) (s : VROOM α R S) : Prop where
  nodup : s.updateList.Nodup
  valid : ∀ id ∈ s.updateList, id < s.P.nodes.length
  problen : s.prob.length = cumIdx cfg.sd

/-- **Everything `receive r` does** (`s` before, `s'` after). -/
structure RecvFacts (cfg : VrCfg R S) (s s' : VROOM α R S) (r : R) : Prop where
  kind : s'.P.kind = s.P.kind
  layers : s'.P.layers = s.P.layers
  depth : s'.P.depth = s.P.depth
  len : s'.P.nodes.length = s.P.nodes.length
  iteration : s'.iteration = s.iteration
  prob : s'.prob = s.prob
  curr : s'.curr = s.curr
  updateList : s'.updateList = s.updateList
  /-- tree fields and ranks of every node are unchanged; the cell at position `j` of the update
  list gets the reward and one `tilde` entry appended; all other cells are untouched -/
  node : ∀ (i : Nat) (nd : Node α (VrSt R S)), s.P.nodes[i]? = some nd →
    ∃ nd', s'.P.nodes[i]? = some nd' ∧ nd'.depth = nd.depth ∧ nd'.index = nd.index ∧
      nd'.parent = nd.parent ∧ nd'.children = nd.children ∧ nd'.box = nd.box ∧
      nd'.st.ranks = nd.st.ranks ∧
      (∀ j, s.updateList[j]? = some i →
        nd'.st.rewards = nd.st.rewards ++ [r] ∧
        nd'.st.tilde = nd.st.tilde ++ [cfg.tildeOf r (cumVal cfg s.prob cfg.sd nd.depth) j]) ∧
      (i ∉ s.updateList → nd'.st = nd.st)

/-- **Reachable states**: the states reached from `__init__` by rounds `pull; receive r` (any
reward `r`: every reward history) and `get_last_point` calls, the random choices being arbitrary
among those NumPy can produce. -/
inductive Reachable [DecidableLE S] (cfg : VrCfg R S) (k : Kind) (domain : Box α) :
    VROOM α R S → Prop
  | init {ds ds' : List (Draw α)} {s : VROOM α R S} :
      InitDrawsOK (VROOM.st0 (R := R) (S := S)) cfg.sd (cfg.sd + 1)
        (Part.init k domain VROOM.st0) ds →
      VROOM.init cfg k domain ds = .ok (s, ds') → Reachable cfg k domain s
  | round {s s1 s2 : VROOM α R S} {time : Nat} {dr : VDraw α} {last : Nat} {pt : List α} {r : R} :
      Reachable cfg k domain s → PullDrawsOK cfg s dr →
      VROOM.pull cfg s time dr = .ok (s1, last, pt) → VROOM.receive cfg s1 r = .ok s2 →
      Reachable cfg k domain s2
  | lastPoint {s s' : VROOM α R S} {dr : VDraw α} {node last : Nat} {pt : List α} :
      Reachable cfg k domain s →
      (∀ h layer node, s.P.layers[h]? = some layer → node ∈ layer →
        DescOK cfg.hmax dr.steps h node s.P) →
      VROOM.lastPoint cfg s dr = .ok (s', node, last, pt) → Reachable cfg k domain s'

end pullspec

section weights
variable {S : Type} [Field S]

/-- The normalising constant the code computes:
`const = Σ_{h=1..sd} Σ_{l=1..2^h} 1/(h*l)`. -/
def normC (sd : Nat) : S :=
  ((List.range' 1 sd).map (fun (h : Nat) =>
    ((List.range' 1 ((2 : Nat) ^ h)).map (fun (l : Nat) => 1 / ((h : S) * (l : S)))).sum)).sum

/-- `1/(h * rank * const)` -/
def weight (sd h r : Nat) : S := 1 / ((h : S) * (r : S) * normC sd)

/-- The configuration computes the weights, and accumulates them, as the code does (over a
field). -/
structure FieldCfg {R : Type} (cfg : VrCfg R S) : Prop where
  probOf : ∀ h r, cfg.probOf h r = weight cfg.sd h r
  padd : ∀ a b, cfg.padd a b = a + b
  pzero : cfg.pzero = 0

end weights

end VR
end PyXAB
