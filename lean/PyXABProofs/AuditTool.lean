/-
  Axiom audit: `#audit_module M` lists every theorem declared in module `M` together with the
  axioms it depends on (as `#print axioms` would).  The check script generates one small file
  per property that imports the property's module and runs this command.
-/
import Lean
open Lean Elab Command

syntax (name := auditModule) "#audit_module " ident : command

@[command_elab auditModule] def elabAuditModule : CommandElab := fun stx => do
  let modName := stx[1].getId
  let env ← getEnv
  let some modIdx := env.getModuleIdx? modName
    | throwError "AUDIT-ERROR unknown module {modName}"
  let mut names : Array Name := #[]
  for (n, ci) in env.constants.map₁.toList do
    if env.getModuleIdxFor? n == some modIdx then
      match ci with
      | .thmInfo _ =>
        if !n.isInternalDetail then names := names.push n
      | _ => pure ()
  let sorted := names.qsort (fun a b => a.toString < b.toString)
  for n in sorted do
    let axs ← Lean.collectAxioms n
    let axs := axs.qsort (fun a b => a.toString < b.toString)
    logInfo m!"AUDIT-THM {n} AXIOMS {axs.toList}"
  logInfo m!"AUDIT-DONE {modName} {sorted.size}"
