/-
  Line-protocol driver: reads one operation per line on stdin, applies the executable model
  (instantiated at `Float`), prints one canonical output line per operation.  Floats travel
  as decimal `UInt64` bit patterns.  Imports models only (no Mathlib) so it links as an exe.
-/
import PyXABModel.Drv.Main

def main : IO Unit := PyXAB.Drv.mainLoop
