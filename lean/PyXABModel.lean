-- Root of the `PyXABModel` library: executable models and driver support (no Mathlib).
import PyXABModel.Model.Box
import PyXABModel.Model.Partition
import PyXABModel.Model.FloatInst
import PyXABModel.Model.TreeBandit
import PyXABModel.Model.Sweep
import PyXABModel.Model.SequOOL
import PyXABModel.Model.Meta
import PyXABModel.Model.Zooming
import PyXABModel.Model.VROOM
import PyXABModel.Model.StroquOOL
import PyXABModel.Generated.ObjectivesFloat
import PyXABModel.Drv.Main
