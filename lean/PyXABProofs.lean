-- Root of the proof library: tie obligations regenerated from /repo + property theorems.
import PyXABProofs.Generated.Geometry
import PyXABProofs.Props.C02
import PyXABProofs.Props.C03
