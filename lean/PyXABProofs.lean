-- Root of the proof library: tie obligations regenerated from /repo + property theorems.
import PyXABProofs.Generated.Geometry
import PyXABProofs.Props.C02
import PyXABProofs.Props.C03
import PyXABProofs.Props.C04
import PyXABProofs.Props.C05
import PyXABProofs.Props.C06
import PyXABProofs.Props.C07
import PyXABProofs.Props.C08
import PyXABProofs.Props.C09
import PyXABProofs.Props.C10
import PyXABProofs.Props.C11
import PyXABProofs.Props.C12
import PyXABProofs.Props.C17
