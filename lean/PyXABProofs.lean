-- Root of the proof library: tie obligations regenerated from /repo + property theorems.
import PyXABProofs.Generated.Geometry
import PyXABProofs.Props.C02
import PyXABProofs.Props.C03
import PyXABProofs.Props.C04
import PyXABProofs.Props.C06
import PyXABProofs.Props.C05
