#!/bin/bash
# Offline build of the whole framework from files on disk (run once after a fresh restore).
set -e
cd "$(dirname "$0")"
/venv/bin/python harness/translate_geometry.py quick 2>/dev/null | grep -v "WARNING conda" || true
/venv/bin/python harness/translate_formulas.py 2>/dev/null | grep -v "WARNING conda" || true
/venv/bin/python harness/translate_rules.py 2>/dev/null | grep -v "WARNING conda" || true
[ -f harness/translate_objectives.py ] && (/venv/bin/python harness/translate_objectives.py 2>/dev/null | grep -v "WARNING conda" || true)
cd lean
lake build PyXABModel driver 2>&1 | grep -v "WARNING conda" | tail -3
lake build PyXABProofs PyXABProofs.AuditTool 2>&1 | grep -v "WARNING conda" | tail -3
echo setup-done
