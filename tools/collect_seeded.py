"""Collect evaluated seeded changes into /verif/seeded/<id>/ and print the DESIGN.md table.
usage: collect_seeded.py <results dir> [<later results dir> ...]   (later runs override per check: re-tests after a
check was strengthened)"""
import sys, os, re, json, shutil, glob
res_dir = sys.argv[1]
later = sys.argv[2:]
rows = []
for f in sorted(glob.glob(os.path.join(res_dir, "C*-m*.txt"))):
    mid = os.path.basename(f)[:-4]
    prop, m = mid.split("-")
    src = f"/tmp/mut_{prop}/_mut/{m}"
    txt = open(f).read()
    retested = []
    for ld in later:
        lf = os.path.join(ld, os.path.basename(f))
        if os.path.exists(lf):
            extra = [l for l in open(lf).read().split("\n") if re.match(r"C\d\d rc=", l)]
            txt += "\n" + "\n".join(extra)
            retested += [l.split()[0] for l in extra]
    ok_without = "demo-without-patch rc=0" in txt
    ok_with = re.search(r"demo-with-patch rc=1", txt) is not None
    tests = re.search(r"(\d+) passed", txt)
    checks = {}
    for line in txt.split("\n"):
        mm = re.match(r"(C\d\d) rc=(\d+) violations=(\d+) known=(\d+) :: (.*)", line)
        if mm:
            kind = "-"
            if mm.group(2) == "1":
                kind = "input" if "no-failing-input-found" not in mm.group(5) else "tie"
            elif mm.group(2) != "0":
                kind = "ERR" + mm.group(2)
            checks[mm.group(1)] = (kind, mm.group(5).strip()[:200])
    confirmed = ok_without and ok_with and tests and tests.group(1) == "124"
    if os.path.isdir(src) and confirmed:
        dst = f"/verif/seeded/{mid}"
        os.makedirs(dst, exist_ok=True)
        for n in ("patch.diff", "demo.py"):
            shutil.copy(os.path.join(src, n), os.path.join(dst, n))
        meta = json.load(open(os.path.join(src, "meta.json")))
        meta["breaks_property"] = prop
        meta["confirmed_by_me"] = {"scratch_worktree": "git worktree of /repo HEAD under /var/tmp (removed afterwards)",
                                   "demo_passes_without_patch": ok_without, "demo_fails_with_patch": ok_with,
                                   "suite_with_patch": tests.group(0) if tests else None}
        meta["checks_run"] = "tools/try_mutation.sh (patch applied to /repo with git apply, all 17 quick checks, git checkout -- .)"
        meta["check_results"] = {k: v[0] for k, v in checks.items()}
        meta["retested_after_strengthening"] = sorted(set(retested))
        meta["target_check_detail"] = checks.get(prop, ("", ""))[1]
        json.dump(meta, open(os.path.join(dst, "meta.json"), "w"), indent=1)
    rows.append((mid, prop, confirmed, checks))
print("| seeded change | target | target check | other checks that raise (i = with failing input, t = tie broken, no input) |")
print("|---|---|---|---|")
for mid, prop, confirmed, checks in rows:
    tgt = checks.get(prop, ("?", ""))[0]
    others = " ".join(f"{k}{'i' if v[0]=='input' else 't'}" for k, v in sorted(checks.items()) if k != prop and v[0] in ("input", "tie"))
    print(f"| {mid}{'' if confirmed else ' (NOT confirmed)'} | {prop} | {'caught, failing input' if tgt=='input' else 'caught, no-failing-input-found' if tgt=='tie' else 'MISSED' if tgt=='-' else tgt} | {others} |")
