#!/bin/bash
# run before committing: /repo must be clean (no seeded change applied) and every evidence file must come from a clean run
cd "$(dirname "$0")/.."
if [ -n "$(git -C /repo status --short | grep -v '^??')" ]; then echo "PRECOMMIT: /repo has uncommitted changes"; exit 1; fi
python3 - <<'PY' || exit 1
import json, glob, sys
bad = []
for f in sorted(glob.glob('evidence/*.json')):
    e = json.load(open(f)); c = e['coverage']
    if not (c['obligations'] >= 1 and c['discharged'] == c['obligations']):
        bad.append(f)
    if e.get('violations') or e.get('violation'):
        bad.append(f + " (violation recorded)")
if bad:
    print("PRECOMMIT: evidence not from a clean run:", bad); sys.exit(1)
PY
echo precommit-ok
