#!/bin/bash
# run every claimed check (quick by default) in parallel and summarise:  tools/run_all.sh [--thorough] [ids...]
cd "$(dirname "$0")/.."
tier="--quick"; ids=()
for a in "$@"; do if [ "$a" = "--thorough" ]; then tier="--thorough"; else ids+=("$a"); fi; done
if [ ${#ids[@]} -eq 0 ]; then ids=(C01 C02 C03 C04 C05 C06 C07 C08 C09 C10 C11 C12 C13 C14 C15 C16 C17); fi
out=$(mktemp -d /var/tmp/runall.XXXXXX)
( cd lean && lake build driver PyXABProofs PyXABProofs.AuditTool >/dev/null 2>&1 )
printf "%s\n" "${ids[@]}" | xargs -P 6 -I{} bash -c "timeout 3000 ./check {} $tier > $out/{}.log 2>&1; echo \$? > $out/{}.rc"
for i in "${ids[@]}"; do
  rc=$(cat $out/$i.rc 2>/dev/null); v=$(grep -c '^VIOLATION' $out/$i.log); k=$(grep -c '^KNOWN-FINDING' $out/$i.log)
  echo "$i rc=$rc violations=$v known=$k :: $(grep '^VIOLATION' $out/$i.log | head -1 | cut -c1-160) $(grep -A1 '^VIOLATION' $out/$i.log | tail -1 | cut -c1-200)"
done
echo "logs: $out"
