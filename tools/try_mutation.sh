#!/bin/bash
# tools/try_mutation.sh <dir with patch.diff demo.py meta.json> [check ids...]
# 1. confirm in a scratch worktree of /repo: suite passes with the patch, demo fails with / passes without it
# 2. apply to the repository the checks read (PYXAB_REPO, default /repo), run the checks, revert.
set -u
here="$(cd "$(dirname "$0")/.." && pwd)"
R="${PYXAB_REPO:-/repo}"
d=$(realpath "$1"); shift
w=/var/tmp/mutcheck.$$
git -C /repo worktree add -q --detach $w HEAD || exit 2
cp "$d/demo.py" $w/_demo.py
( cd $w && timeout 600 /venv/bin/python _demo.py >/dev/null 2>&1; echo "demo-without-patch rc=$?" )
( cd $w && git apply "$d/patch.diff" && echo patch-applies ) || { echo PATCH-DOES-NOT-APPLY; git -C /repo worktree remove --force $w; exit 2; }
( cd $w && timeout 600 /venv/bin/python _demo.py 2>&1 | grep -v "WARNING conda" | tail -2; echo "demo-with-patch rc=${PIPESTATUS[0]}" )
( cd $w && timeout 900 /venv/bin/python -m pytest -q -p no:cacheprovider --timeout=900 2>&1 | tail -1 )
git -C /repo worktree remove --force $w
( cd "$R" && git apply "$d/patch.diff" ) || exit 2
VERIF_EVIDENCE_DIR=/var/tmp/w/evidence_scratch "$here/tools/run_all.sh" "$@"
( cd "$R" && git checkout -- . && git status --short | head -3 )
