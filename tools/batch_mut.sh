#!/bin/bash
# tools/batch_mut.sh <results dir> [pattern]   evaluate every seeded change under /tmp/mut_*/_mut/<pattern> not yet evaluated
here="$(cd "$(dirname "$0")/.." && pwd)"
res="$1"; pat="${2:-m*}"
mkdir -p "$res"
[ -x "$here/lean/.lake/build/bin/driver" ] || ( cd "$here" && ./setup.sh )
for d in /tmp/mut_*/_mut/$pat; do
  [ -f $d/meta.json ] || continue
  id=$(basename $(dirname $(dirname $d)) | sed 's/mut_//')-$(basename $d)
  [ -f $res/$id.txt ] && continue
  echo "== $id" > $res/$id.txt.tmp
  "$here/tools/try_mutation.sh" $d >> $res/$id.txt.tmp 2>&1
  ( cd "${PYXAB_REPO:-/repo}" && git checkout -- . 2>/dev/null )
  mv $res/$id.txt.tmp $res/$id.txt
done
echo BATCH-DONE
