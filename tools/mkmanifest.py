import json
PY = "cd /repo && /venv/bin/python -m pytest -ra -q -p no:cacheprovider --timeout=900 --continue-on-collection-errors"
checks = {
 "C02": dict(cat="proof", technique="Lean 4 theorems over ordered fields + translator tie re-proved each run (geometry traced from the real make_children) + bit-level differential check",
   text="Tiling/containment/shared-face/arity/equal-width/centre theorems for splitChain/splitAll and the five classes over every ordered field, all arities, dimensions and admissible draws (end points included); the real make_children is traced symbolically on every run and each traced instance is re-proved equal to the model (ring-normalisation), so the geometry tie is exact for all real boxes of the traced shapes (d<=3, K<=5).",
   note="Trusted: Lean kernel, Mathlib, axioms propext/Classical.choice/Quot.sound, translate_geometry.py, the Float-level differential harness. IEEE rounding not modelled (partial for float overflow / astronomically large K).", ref="§5 C02"),
 "C03": dict(cat="proof", technique="Lean 4 invariant proof by induction over op sequences + differential correspondence of the full link structure after every op",
   text="WF invariant (layers = creation-ordered filter by depth, parent/child mutual, child ids contiguous, index formula, label injectivity) proved for init, make_children on a leaf with the documented flag, deepen, hence every legal interleaving; model tied to /repo by comparing the complete tree/layer structure after every op of seeded interleavings on the five real classes (incl. a misuse stream).",
   note="Trusted: Lean kernel, axioms propext/Classical.choice/Quot.sound, instrumented partition subclasses + canonical dump, Lean driver. Correspondence is differential (explored op sequences only).", ref="§5 C03"),
 "C04": dict(cat="proof", technique="Lean 4 refinement/invariant proof (ghost history of credited rewards) + bit-exact differential correspondence of per-node evidence after every call",
   text="For the models of T-HOO/HCT/VHCT: after any run of rounds each node's reward list is exactly the filter of the (pulled cell, reward) history by the credit relation (cell itself; T-HOO: ancestor-or-self), count = length, mean/variance are the configured functions of that list, counts sum to the number of rounds (theorems HOO.C04/HCT.C04, for every formula record and every reward/draw sequence). Tied to /repo by lock-step execution of the real classes: tree, counts, last reward, mean, variance compared bit-for-bit after every call; an independent ledger monitor runs on the live objects. SOO/DOO/StoSOO/SequOOL are covered by their models' correspondence + ledger monitors (theorems for them under Props/C08, C12).",
   note="Trusted: Lean kernel, axioms propext/Classical.choice/Quot.sound, harness (instrumented partitions, RNG patching, dumps), driver. Zooming/VROOM/StroquOOL/POO/GPO parts of C04: see DESIGN.md status table.", ref="§5 C04"),
 "C05": dict(cat="proof", technique="Lean 4 invariant proofs over any linear order of scores (B-recursion, greedy path, lazy U-formula with ghost time stamps) + bit-exact differential correspondence of U/B/tau/path",
   text="B = U at leaves and min(U, max child B) elsewhere after init and every receive; unvisited cells have top U; pull follows last-maximal-B children and stops exactly at the published stop rule; U equals the configured formula of the node's own history, HCT/VHCT with delta-tilde of the later of the last power-of-two refresh and the node's last pull (refresh_iff_pow2). Proved for every formula record; the driver instantiates the records with the code's float expressions and U, B, tau, tau_h, path are compared bit-for-bit with the real classes after every call; an independent re-derivation from raw histories runs as monitor.",
   note="Trusted: Lean kernel, axioms propext/Classical.choice/Quot.sound, harness, driver, hypothesis that inf/-inf are top/bottom of the score order (true of IEEE doubles without NaN). compute_t_plus is modelled exactly (equal to the float formula below 2^29 rounds).", ref="§5 C05"),
 "C06": dict(cat="proof", technique="Lean 4 per-step frame theorems + induction over runs + differential correspondence of every make_children call",
   text="Per receive: node count grows by 0 or K, only under the pulled cell, only if it was a leaf, new cells start with st0 (zero pulls, top index); T-HOO grows iff expandOK(depth) and never exceeds max 1 (D+1); HCT/VHCT grow iff leaf and count >= threshold, so every internal cell had reached its threshold when split; loop totality. Tied to /repo by lock-step comparison (every make_children call with its parent and draws) and a monitor recomputing the published rules with math.*.",
   note="Trusted: Lean kernel, axioms propext/Classical.choice/Quot.sound, harness, driver. The numeric value of D and tau is computed in floats by both sides (cross-checked, near-integer pre-ceil values skipped and counted).", ref="§5 C06"),
}
m = {
 "version": 1,
 "setup_cmd": "./setup.sh",
 "hooks": {"guard": "PYXAB_VERIF", "enable": "no source hooks are needed: observation is by subclassing/monkey-patching from the harness; the guard is reserved and unused",
           "baseline_off_cmd": PY, "source_commits": [], "add_only": True},
 "engines": [{"name": "lean-model+proofs", "path": "lean/", "serves_properties": sorted(checks), "kind_free_text": "Lean 4 executable model (PyXABModel), property theorems (PyXABProofs/Props), regenerated tie obligations (PyXABProofs/Generated), compiled line-protocol driver"},
             {"name": "python-harness", "path": "harness/", "serves_properties": sorted(checks), "kind_free_text": "drives the real PyXAB classes in-process, translators, correspondence, monitors, verdicts, evidence"}],
 "checks": [],
 "notes": "Fix commits in /repo are listed in known_findings.json ('fixed'). Exit 2 = machinery error (never a verdict).",
 "not_applicable": [],
}
allp = [json.loads(l)["id"] for l in open("/verif/properties.jsonl")]
for pid in allp:
    if pid in checks:
        c = checks[pid]
        m["checks"].append({"property_id": pid, "quick_cmd": f"./check {pid} --quick", "thorough_cmd": f"./check {pid} --thorough",
            "evidence_file": f"evidence/{pid}.json", "replay_cmd_template": f"./check {pid} --replay {{path}}", "engine": "lean-model+proofs",
            "level_claimed": {"category": c["cat"], "text": c["text"], "design_ref": c["ref"]}, "level_note": c["note"], "technique": c["technique"]})
    else:
        m["not_applicable"].append({"property_id": pid, "reason": "not yet claimed: model/theorems for this property are still being built (see DESIGN.md §8 order of work); the technique applies"})
json.dump(m, open("/verif/MANIFEST.json", "w"), indent=1)
